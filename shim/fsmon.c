/* fsmon — LD_PRELOAD libc interposer used by the copia runtime monitors.
 *
 * Modes (environment, all optional, all inert unless the executable matches):
 *   FSMON_MATCH=<basename[,basename...]>  activate only in these executables
 *   FSMON_ARGV1=<word>        kill / fail / gate / delay only if argv[1] == word
 *   FSMON_LOG=<prefix>        trace: one line per interposed call -> <prefix>.<pid>
 *   FSMON_KILL_AT=<k>         SIGKILL self immediately before the k-th counted call
 *   FSMON_KILL_CLASS=mutating|write   (write = mutating + pipe writes)
 *   FSMON_KILL_SIG=<n>                 signal raised at the kill point (default 9). A catchable signal is raised ONCE;
 *                                      if the process handles it, it goes on running from there
 *   FSMON_FAIL_AT=<k>:<errno> k-th counted call returns -1/errno, not executed
 *   FSMON_FAIL_CLASS=mutating|write|rename|fsync|datawrite
 *   FSMON_GATE=<unix socket>  gate mode (see below), FSMON_ROOT=<dir>
 *   FSMON_DELAY=<seed>:<max_us>  seeded sleep before mutating calls
 *   FSMON_ALLOC_FLOOR=<bytes> (only in the -DFSMON_ALLOC build) log big requests
 *
 * Trace line (tab separated):  seq tid op ret errno path1 path2 extra
 * paths are %XX-escaped (bytes < 0x21, '%', >= 0x7f).
 */
#define _GNU_SOURCE
#include <dirent.h>
#include <dlfcn.h>
#include <errno.h>
#include <fcntl.h>
#include <limits.h>
#include <pthread.h>
#include <signal.h>
#include <stdarg.h>
#include <stdint.h>
#include <stdio.h>
#include <stdlib.h>
#include <string.h>
#include <sys/file.h>
#include <sys/socket.h>
#include <sys/stat.h>
#include <sys/syscall.h>
#include <sys/types.h>
#include <sys/uio.h>
#include <sys/un.h>
#include <time.h>
#include <unistd.h>

#define MAXFD 4096
#define PMAX 4608

static int g_active = 0;      /* tracing-level activation (exe matches) */
static int g_ctl = 0;         /* kill/fail/gate/delay activation (argv1 matches too) */
static int g_logfd = -1;
static long g_kill_at = 0, g_fail_at = 0;
static int g_fail_errno = 5;
static int g_kill_class = 0;  /* 0 mutating, 1 write */
static int g_kill_sig = SIGKILL;
static int g_fail_class = 0;  /* 0 mutating,1 write,2 rename,3 fsync,4 datawrite */
static long g_count_kill = 0, g_count_fail = 0;
static unsigned long g_seq = 0;
static int g_gatefd = -1;
static char g_root[PATH_MAX];
static size_t g_rootlen = 0;
static int g_gate = 0;
static unsigned long g_delay_seed = 0, g_delay_max = 0;
static pthread_mutex_t g_mu = PTHREAD_MUTEX_INITIALIZER;
static char *g_fdpath[MAXFD];
static unsigned char g_rd_seen[MAXFD]; /* gate only the first read / readdir per open fd */
static int g_inited = 0;
static char g_argv1[256];

/* ---------- raw helpers (never re-enter interposed symbols) ---------- */
static ssize_t raw_write(int fd, const void *b, size_t n) { return syscall(SYS_write, fd, b, n); }
static ssize_t raw_read(int fd, void *b, size_t n) { return syscall(SYS_read, fd, b, n); }
static long gettid_(void) { return syscall(SYS_gettid); }

static void die_msg(const char *m) {
  raw_write(2, m, strlen(m));
  _exit(99);
}

#define REAL(name) \
  static __typeof__(name) *real_##name; \
  if (!real_##name) { real_##name = dlsym(RTLD_NEXT, #name); if (!real_##name) die_msg("fsmon: dlsym " #name "\n"); }

static size_t esc(char *out, size_t cap, const char *s) {
  size_t o = 0;
  static const char hx[] = "0123456789ABCDEF";
  if (!s) { if (cap > 1) { out[0] = '-'; out[1] = 0; return 1; } return 0; }
  if (!*s) { if (cap > 2) { out[0] = '%'; out[1] = 'e'; out[2] = 0; return 2; } }
  for (; *s && o + 4 < cap; s++) {
    unsigned char c = (unsigned char)*s;
    if (c < 0x21 || c == '%' || c >= 0x7f) { out[o++] = '%'; out[o++] = hx[c >> 4]; out[o++] = hx[c & 15]; }
    else out[o++] = (char)c;
  }
  out[o] = 0;
  return o;
}

/* A spinning process must not fill the disk with its own trace: stop logging after a cap. */
static unsigned long g_logbytes = 0;
static unsigned long g_logcap = 32UL << 20;

static void logline(const char *op, long ret, int err, const char *p1, const char *p2, const char *extra) {
  if (g_logfd < 0) return;
  if (g_logbytes > g_logcap) {
    if (g_logbytes != ~0UL) {
      g_logbytes = ~0UL;
      static const char m[] = "0\t0\tLOGCAP\t0\t0\t-\t-\ttrace truncated\n";
      raw_write(g_logfd, m, sizeof m - 1);
    }
    return;
  }
  char buf[2 * PMAX * 3 + 256];
  char e1[PMAX * 3], e2[PMAX * 3];
  esc(e1, sizeof e1, p1);
  esc(e2, sizeof e2, p2);
  unsigned long s = __atomic_add_fetch(&g_seq, 1, __ATOMIC_SEQ_CST);
  int n = snprintf(buf, sizeof buf, "%lu\t%ld\t%s\t%ld\t%d\t%s\t%s\t%s\n", s, gettid_(), op, ret, err, e1, e2, extra ? extra : "-");
  if (n > 0) {
    raw_write(g_logfd, buf, (size_t)n);
    __atomic_add_fetch(&g_logbytes, (unsigned long)n, __ATOMIC_RELAXED);
  }
}

static void abspath(char *out, size_t cap, int dirfd, const char *path) {
  if (!path) { out[0] = 0; return; }
  if (path[0] == '/') { snprintf(out, cap, "%s", path); return; }
  char base[PATH_MAX];
  base[0] = 0;
  if (dirfd == AT_FDCWD) {
    if (!syscall(SYS_getcwd, base, sizeof base)) base[0] = 0; /* returns length */
  } else if (dirfd >= 0 && dirfd < MAXFD && g_fdpath[dirfd]) {
    snprintf(base, sizeof base, "%s", g_fdpath[dirfd]);
  }
  if (path[0] == 0) snprintf(out, cap, "%s", base);
  else snprintf(out, cap, "%s/%s", base, path);
}

static void setfd(int fd, const char *abs) {
  if (fd < 0 || fd >= MAXFD) return;
  pthread_mutex_lock(&g_mu);
  free(g_fdpath[fd]);
  g_fdpath[fd] = abs ? strdup(abs) : NULL;
  g_rd_seen[fd] = 0;
  pthread_mutex_unlock(&g_mu);
}
static const char *fdp(int fd) {
  if (fd < 0 || fd >= MAXFD) return NULL;
  return g_fdpath[fd];
}

static int under_root(const char *abs) {
  if (!g_rootlen || !abs) return 0;
  if (strncmp(abs, g_root, g_rootlen) != 0) return 0;
  return abs[g_rootlen] == 0 || abs[g_rootlen] == '/';
}

static int is_pipe(int fd) {
  struct stat st;
  if (fd < 0) return 0;
  if (syscall(SYS_fstat, fd, &st) != 0) return 0;
  return S_ISFIFO(st.st_mode);
}

/* ---------- init ---------- */
static int match_list(const char *list, const char *name) {
  size_t nl = strlen(name);
  const char *p = list;
  while (*p) {
    const char *q = strchr(p, ',');
    size_t l = q ? (size_t)(q - p) : strlen(p);
    if (l == nl && strncmp(p, name, l) == 0) return 1;
    if (!q) break;
    p = q + 1;
  }
  return 0;
}

static void gate_connect(const char *sock);

__attribute__((constructor)) static void fsmon_init(void) {
  if (g_inited) return;
  g_inited = 1;
  const char *m = getenv("FSMON_MATCH");
  if (!m) return;
  char exe[PATH_MAX];
  ssize_t n = syscall(SYS_readlink, "/proc/self/exe", exe, sizeof exe - 1);
  if (n <= 0) return;
  exe[n] = 0;
  const char *bn = strrchr(exe, '/');
  bn = bn ? bn + 1 : exe;
  if (!match_list(m, bn)) return;
  g_active = 1;
  /* argv[1] */
  g_argv1[0] = 0;
  {
    int fd = (int)syscall(SYS_open, "/proc/self/cmdline", O_RDONLY | O_CLOEXEC);
    if (fd >= 0) {
      char cb[4096];
      ssize_t k = raw_read(fd, cb, sizeof cb - 1);
      syscall(SYS_close, fd);
      if (k > 0) {
        cb[k] = 0;
        size_t l0 = strlen(cb);
        if ((ssize_t)(l0 + 1) < k) snprintf(g_argv1, sizeof g_argv1, "%s", cb + l0 + 1);
      }
    }
  }
  const char *a1 = getenv("FSMON_ARGV1");
  g_ctl = (!a1 || !*a1 || strcmp(a1, g_argv1) == 0);
  const char *lc = getenv("FSMON_LOG_CAP");
  if (lc && *lc) g_logcap = strtoul(lc, NULL, 10);
  const char *lg = getenv("FSMON_LOG");
  if (lg && *lg) {
    char p[PATH_MAX];
    snprintf(p, sizeof p, "%s.%d", lg, (int)getpid());
    int fd = (int)syscall(SYS_open, p, O_WRONLY | O_CREAT | O_APPEND | O_CLOEXEC, 0644);
    if (fd >= 0) {
      int hi = (int)syscall(SYS_fcntl, fd, F_DUPFD_CLOEXEC, 1000);
      if (hi >= 0) { syscall(SYS_close, fd); fd = hi; }
      g_logfd = fd;
      char hb[512];
      int hn = snprintf(hb, sizeof hb, "0\t%ld\tSTART\t0\t0\t%s\t-\targv1=%s\n", gettid_(), bn, g_argv1);
      raw_write(g_logfd, hb, (size_t)hn);
    }
  }
  if (g_ctl) {
    const char *k = getenv("FSMON_KILL_AT");
    if (k) g_kill_at = atol(k);
    const char *kc = getenv("FSMON_KILL_CLASS");
    if (kc && strcmp(kc, "write") == 0) g_kill_class = 1;
    const char *ks = getenv("FSMON_KILL_SIG");
    if (ks && atoi(ks) > 0) g_kill_sig = atoi(ks);
    const char *f = getenv("FSMON_FAIL_AT");
    if (f) {
      g_fail_at = atol(f);
      const char *c = strchr(f, ':');
      if (c) g_fail_errno = atoi(c + 1);
    }
    const char *fc = getenv("FSMON_FAIL_CLASS");
    if (fc) {
      if (!strcmp(fc, "write")) g_fail_class = 1;
      else if (!strcmp(fc, "rename")) g_fail_class = 2;
      else if (!strcmp(fc, "fsync")) g_fail_class = 3;
      else if (!strcmp(fc, "datawrite")) g_fail_class = 4;
    }
    const char *d = getenv("FSMON_DELAY");
    if (d) {
      g_delay_seed = strtoul(d, NULL, 10);
      const char *c = strchr(d, ':');
      g_delay_max = c ? strtoul(c + 1, NULL, 10) : 1000;
    }
    const char *r = getenv("FSMON_ROOT");
    if (r && *r) {
      snprintf(g_root, sizeof g_root, "%s", r);
      g_rootlen = strlen(g_root);
      while (g_rootlen > 1 && g_root[g_rootlen - 1] == '/') g_root[--g_rootlen] = 0;
    }
    const char *g = getenv("FSMON_GATE");
    if (g && *g) gate_connect(g);
  }
}

/* ---------- classes, kill, fail, delay ---------- */
enum { K_OPENW = 1, K_WRITE, K_CFR, K_FSYNC, K_RENAME, K_UNLINK, K_MKDIR, K_TRUNC, K_UTIME, K_PIPEW, K_RMDIR };

static int in_class(int cls, int kind) {
  switch (cls) {
    case 0: return kind != K_PIPEW;
    case 1: return 1;
    case 2: return kind == K_RENAME;
    case 3: return kind == K_FSYNC;
    case 4: return kind == K_WRITE || kind == K_CFR;
  }
  return 0;
}

/* returns 1 if the call must fail with errno set (not executed) */
static int pre_mut(int kind, const char *op, const char *p1, const char *p2) {
  if (!g_active || !g_ctl) return 0;
  if (g_delay_max) {
    unsigned long x = g_delay_seed * 6364136223846793005UL + (unsigned long)gettid_() * 1442695040888963407UL + __atomic_add_fetch(&g_seq, 0, __ATOMIC_SEQ_CST) * 2862933555777941757UL;
    x ^= x >> 29; x *= 0xbf58476d1ce4e5b9UL; x ^= x >> 32;
    unsigned long us = x % (g_delay_max + 1);
    struct timespec ts = { (time_t)(us / 1000000), (long)(us % 1000000) * 1000 };
    syscall(SYS_nanosleep, &ts, NULL);
  }
  if (g_kill_at > 0 && in_class(g_kill_class, kind)) {
    long c = __atomic_add_fetch(&g_count_kill, 1, __ATOMIC_SEQ_CST);
    if (c == g_kill_at) {
      char ex[64];
      snprintf(ex, sizeof ex, "k=%ld", c);
      logline("KILL", 0, 0, p1, p2, op);
      syscall(SYS_kill, getpid(), g_kill_sig);
      if (g_kill_sig == SIGKILL) for (;;) syscall(SYS_pause);
      /* a catchable signal: default disposition ends the process here; a handler lets it carry on */
    }
  }
  if (g_fail_at > 0 && in_class(g_fail_class, kind)) {
    long c = __atomic_add_fetch(&g_count_fail, 1, __ATOMIC_SEQ_CST);
    if (c == g_fail_at) {
      logline("FAIL", -1, g_fail_errno, p1, p2, op);
      errno = g_fail_errno;
      return 1;
    }
  }
  return 0;
}

/* ---------- gate ---------- */
static pthread_mutex_t g_gmu = PTHREAD_MUTEX_INITIALIZER;
static unsigned long g_gseq = 0;

static void gate_connect(const char *sock) {
  int fd = (int)syscall(SYS_socket, AF_UNIX, SOCK_STREAM | SOCK_CLOEXEC, 0);
  if (fd < 0) die_msg("fsmon: gate socket\n");
  struct sockaddr_un sa;
  memset(&sa, 0, sizeof sa);
  sa.sun_family = AF_UNIX;
  socklen_t alen = sizeof sa;
  if (sock[0] == '@') {
    /* abstract socket: no file-system path, no length limit problems with deep work directories */
    size_t n = strlen(sock + 1);
    if (n > sizeof sa.sun_path - 2) n = sizeof sa.sun_path - 2;
    sa.sun_path[0] = 0;
    memcpy(sa.sun_path + 1, sock + 1, n);
    alen = (socklen_t)(__builtin_offsetof(struct sockaddr_un, sun_path) + 1 + n);
  } else {
    snprintf(sa.sun_path, sizeof sa.sun_path, "%s", sock);
  }
  if (syscall(SYS_connect, fd, &sa, alen) != 0) die_msg("fsmon: gate connect\n");
  int hi = (int)syscall(SYS_fcntl, fd, F_DUPFD_CLOEXEC, 1001);
  if (hi >= 0) { syscall(SYS_close, fd); fd = hi; }
  g_gatefd = fd;
  g_gate = 1;
  char hb[600];
  const char *tag = getenv("FSMON_TAG");
  int n = snprintf(hb, sizeof hb, "HELLO %d %s %s\n", (int)getpid(), tag ? tag : "-", g_argv1[0] ? g_argv1 : "-");
  raw_write(g_gatefd, hb, (size_t)n);
}

static int gate_readline(char *b, size_t cap) {
  size_t o = 0;
  while (o + 1 < cap) {
    char c;
    ssize_t r = raw_read(g_gatefd, &c, 1);
    if (r <= 0) return -1;
    if (c == '\n') break;
    b[o++] = c;
  }
  b[o] = 0;
  return (int)o;
}

/* Block until the scheduler lets this call proceed. Holds g_gmu until gate_done. */
static unsigned long gate_req(const char *op, const char *p1, const char *extra) {
  pthread_mutex_lock(&g_gmu);
  unsigned long s = ++g_gseq;
  char e1[PMAX * 3];
  esc(e1, sizeof e1, p1);
  char b[PMAX * 3 + 128];
  int n = snprintf(b, sizeof b, "REQ %lu %s %s %s\n", s, op, e1, extra ? extra : "-");
  raw_write(g_gatefd, b, (size_t)n);
  char r[64];
  if (gate_readline(r, sizeof r) < 0) { syscall(SYS_kill, getpid(), SIGKILL); for (;;) syscall(SYS_pause); }
  if (strcmp(r, "KILL") == 0) {
    logline("KILL", 0, 0, p1, NULL, op);
    syscall(SYS_kill, getpid(), SIGKILL);
    for (;;) syscall(SYS_pause);
  }
  return s;
}
static void gate_done(unsigned long s, long ret, int err) {
  char b[96];
  int n = snprintf(b, sizeof b, "DONE %lu %ld %d\n", s, ret, err);
  raw_write(g_gatefd, b, (size_t)n);
  pthread_mutex_unlock(&g_gmu);
}
static void gate_blocked(unsigned long s) {
  char b[96];
  int n = snprintf(b, sizeof b, "BLOCKED %lu\n", s);
  raw_write(g_gatefd, b, (size_t)n);
  pthread_mutex_unlock(&g_gmu);
}

#define GATE_ON(abs) (g_gate && under_root(abs))

/* ---------- interposed calls ---------- */
static int open_common(const char *op, int dirfd, const char *path, int flags, mode_t mode, int is64) {
  static int (*real_openat_)(int, const char *, int, ...);
  if (!real_openat_) real_openat_ = dlsym(RTLD_NEXT, is64 ? "openat64" : "openat");
  if (!g_active) return real_openat_(dirfd, path, flags, mode);
  char abs[PMAX];
  abspath(abs, sizeof abs, dirfd, path);
  int wr = (flags & (O_WRONLY | O_RDWR | O_CREAT | O_TRUNC)) != 0;
  char ex[64];
  snprintf(ex, sizeof ex, "fl=%s%s%s%s", (flags & O_ACCMODE) == O_RDONLY ? "r" : ((flags & O_ACCMODE) == O_WRONLY ? "w" : "rw"), (flags & O_CREAT) ? "c" : "", (flags & O_TRUNC) ? "t" : "", (flags & O_EXCL) ? "x" : "");
  if (wr && pre_mut(K_OPENW, op, abs, NULL)) return -1;
  unsigned long gs = 0;
  int gated = GATE_ON(abs);
  if (gated) gs = gate_req(wr ? "openw" : "openr", abs, ex);
  int fd = real_openat_(dirfd, path, flags, mode);
  int e = errno;
  if (fd >= 0) setfd(fd, abs);
  if (gated) gate_done(gs, fd, fd < 0 ? e : 0);
  logline(wr ? "openw" : "openr", fd, fd < 0 ? e : 0, abs, NULL, ex);
  errno = e;
  return fd;
}

int open(const char *path, int flags, ...) {
  mode_t mode = 0;
  if (flags & (O_CREAT | O_TMPFILE)) { va_list ap; va_start(ap, flags); mode = va_arg(ap, mode_t); va_end(ap); }
  return open_common("open", AT_FDCWD, path, flags, mode, 0);
}
int open64(const char *path, int flags, ...) {
  mode_t mode = 0;
  if (flags & (O_CREAT | O_TMPFILE)) { va_list ap; va_start(ap, flags); mode = va_arg(ap, mode_t); va_end(ap); }
  return open_common("open64", AT_FDCWD, path, flags, mode, 1);
}
int openat(int dirfd, const char *path, int flags, ...) {
  mode_t mode = 0;
  if (flags & (O_CREAT | O_TMPFILE)) { va_list ap; va_start(ap, flags); mode = va_arg(ap, mode_t); va_end(ap); }
  return open_common("openat", dirfd, path, flags, mode, 0);
}
int openat64(int dirfd, const char *path, int flags, ...) {
  mode_t mode = 0;
  if (flags & (O_CREAT | O_TMPFILE)) { va_list ap; va_start(ap, flags); mode = va_arg(ap, mode_t); va_end(ap); }
  return open_common("openat64", dirfd, path, flags, mode, 1);
}
int creat(const char *path, mode_t mode) { return open_common("creat", AT_FDCWD, path, O_CREAT | O_WRONLY | O_TRUNC, mode, 0); }
int creat64(const char *path, mode_t mode) { return open_common("creat64", AT_FDCWD, path, O_CREAT | O_WRONLY | O_TRUNC, mode, 1); }

int close(int fd) {
  REAL(close);
  if (g_active && fd >= 0 && fd < MAXFD && g_fdpath[fd]) {
    logline("close", 0, 0, g_fdpath[fd], NULL, NULL);
    setfd(fd, NULL);
  }
  if (g_active && (fd == g_logfd || fd == g_gatefd)) { errno = EBADF; return -1; }
  return real_close(fd);
}

static void dup_track(int oldfd, int newfd) {
  if (!g_active || newfd < 0) return;
  const char *p = fdp(oldfd);
  setfd(newfd, p);
}
int dup(int fd) { REAL(dup); int r = real_dup(fd); int e = errno; dup_track(fd, r); errno = e; return r; }
int dup2(int a, int b) { REAL(dup2); int r = real_dup2(a, b); int e = errno; dup_track(a, r); errno = e; return r; }
int dup3(int a, int b, int f) { REAL(dup3); int r = real_dup3(a, b, f); int e = errno; dup_track(a, r); errno = e; return r; }

ssize_t read(int fd, void *buf, size_t n) {
  REAL(read);
  if (!g_active) return real_read(fd, buf, n);
  const char *p = fdp(fd);
  if (fd == 0 && g_gate) {
    unsigned long gs = gate_req("read0", "<stdin>", NULL);
    ssize_t r = real_read(fd, buf, n);
    int e = errno;
    gate_done(gs, r, r < 0 ? e : 0);
    char ex[48]; snprintf(ex, sizeof ex, "n=%zu", n);
    logline("read0", r, r < 0 ? e : 0, "<stdin>", NULL, ex);
    errno = e;
    return r;
  }
  if (p && GATE_ON(p) && fd < MAXFD && !g_rd_seen[fd]) {
    g_rd_seen[fd] = 1;
    unsigned long gs = gate_req("read", p, NULL);
    ssize_t r = real_read(fd, buf, n);
    int e = errno;
    gate_done(gs, r, r < 0 ? e : 0);
    logline("read", r, r < 0 ? e : 0, p, NULL, NULL);
    errno = e;
    return r;
  }
  ssize_t r = real_read(fd, buf, n);
  int e = errno;
  if (fd == 0) { char ex[48]; snprintf(ex, sizeof ex, "n=%zu", n); logline("read0", r, r < 0 ? e : 0, "<stdin>", NULL, ex); }
  else if (p) logline("read", r, r < 0 ? e : 0, p, NULL, NULL);
  errno = e;
  return r;
}

static ssize_t write_common(const char *op, int fd, size_t total, ssize_t (*doit)(void *), void *ctx) {
  const char *p = fdp(fd);
  int pipe_w = 0;
  if (!p && fd > 2 && (g_kill_class == 1 || g_fail_class == 1 || g_logfd >= 0)) pipe_w = is_pipe(fd);
  if (!p && !pipe_w) return doit(ctx);
  char ex[48]; snprintf(ex, sizeof ex, "n=%zu fd=%d", total, fd);
  const char *name = p ? p : "<pipe>";
  if (pre_mut(p ? K_WRITE : K_PIPEW, op, name, NULL)) return -1;
  unsigned long gs = 0;
  int gated = p && GATE_ON(p);
  if (gated) gs = gate_req("write", p, ex);
  ssize_t r = doit(ctx);
  int e = errno;
  if (gated) gate_done(gs, r, r < 0 ? e : 0);
  logline(p ? op : "pipew", r, r < 0 ? e : 0, name, NULL, ex);
  errno = e;
  return r;
}

struct wctx { int fd; const void *buf; size_t n; off_t off; const struct iovec *iov; int iovcnt; };
static ssize_t do_write(void *c) { struct wctx *w = c; REAL(write); return real_write(w->fd, w->buf, w->n); }
static ssize_t do_pwrite(void *c) { struct wctx *w = c; REAL(pwrite64); return real_pwrite64(w->fd, w->buf, w->n, w->off); }
static ssize_t do_writev(void *c) { struct wctx *w = c; REAL(writev); return real_writev(w->fd, w->iov, w->iovcnt); }

ssize_t write(int fd, const void *buf, size_t n) {
  struct wctx w = { fd, buf, n, 0, NULL, 0 };
  if (!g_active) return do_write(&w);
  return write_common("write", fd, n, do_write, &w);
}
ssize_t pwrite64(int fd, const void *buf, size_t n, off_t off) {
  struct wctx w = { fd, buf, n, off, NULL, 0 };
  if (!g_active) return do_pwrite(&w);
  return write_common("pwrite", fd, n, do_pwrite, &w);
}
ssize_t pwrite(int fd, const void *buf, size_t n, off_t off) { return pwrite64(fd, buf, n, off); }
ssize_t writev(int fd, const struct iovec *iov, int cnt) {
  struct wctx w = { fd, NULL, 0, 0, iov, cnt };
  if (!g_active) return do_writev(&w);
  size_t tot = 0;
  for (int i = 0; i < cnt; i++) tot += iov[i].iov_len;
  return write_common("writev", fd, tot, do_writev, &w);
}

ssize_t copy_file_range(int fin, off64_t *oin, int fout, off64_t *oout, size_t len, unsigned flags) {
  REAL(copy_file_range);
  if (!g_active) return real_copy_file_range(fin, oin, fout, oout, len, flags);
  const char *pi = fdp(fin), *po = fdp(fout);
  char ex[48]; snprintf(ex, sizeof ex, "n=%zu", len);
  if (pre_mut(K_CFR, "copy_file_range", po ? po : "?", pi)) return -1;
  unsigned long gs = 0;
  int gated = (po && GATE_ON(po)) || (pi && GATE_ON(pi));
  if (gated) gs = gate_req("cfr", po && GATE_ON(po) ? po : pi, ex);
  ssize_t r = real_copy_file_range(fin, oin, fout, oout, len, flags);
  int e = errno;
  if (gated) gate_done(gs, r, r < 0 ? e : 0);
  logline("copy_file_range", r, r < 0 ? e : 0, po ? po : "?", pi, ex);
  errno = e;
  return r;
}

static ssize_t sendfile_common(const char *sym, int out, int in, void *off, size_t n) {
  static ssize_t (*rs)(int, int, void *, size_t);
  if (!rs) rs = dlsym(RTLD_NEXT, sym);
  if (!g_active) return rs(out, in, off, n);
  const char *pi = fdp(in), *po = fdp(out);
  char ex[48]; snprintf(ex, sizeof ex, "n=%zu out=%d", n, out);
  if (po && pre_mut(K_CFR, "sendfile", po, pi)) return -1;
  unsigned long gs = 0;
  int gated = (po && GATE_ON(po)) || (pi && GATE_ON(pi));
  if (gated) gs = gate_req(po && GATE_ON(po) ? "cfr" : "read", po && GATE_ON(po) ? po : pi, ex);
  ssize_t r = rs(out, in, off, n);
  int e = errno;
  if (gated) gate_done(gs, r, r < 0 ? e : 0);
  logline("sendfile", r, r < 0 ? e : 0, po ? po : "?", pi, ex);
  errno = e;
  return r;
}
ssize_t sendfile(int out, int in, off_t *off, size_t n) { return sendfile_common("sendfile", out, in, off, n); }
ssize_t sendfile64(int out, int in, off64_t *off, size_t n) { return sendfile_common("sendfile64", out, in, off, n); }

ssize_t splice(int fin, off64_t *oin, int fout, off64_t *oout, size_t len, unsigned flags) {
  REAL(splice);
  if (!g_active) return real_splice(fin, oin, fout, oout, len, flags);
  const char *pi = fdp(fin), *po = fdp(fout);
  if (!pi && !po) return real_splice(fin, oin, fout, oout, len, flags);
  char ex[48]; snprintf(ex, sizeof ex, "n=%zu", len);
  if (po && pre_mut(K_CFR, "splice", po, pi)) return -1;
  unsigned long gs = 0;
  int gated = (po && GATE_ON(po)) || (pi && GATE_ON(pi));
  if (gated) gs = gate_req(po && GATE_ON(po) ? "cfr" : "read", po && GATE_ON(po) ? po : pi, ex);
  ssize_t r = real_splice(fin, oin, fout, oout, len, flags);
  int e = errno;
  if (gated) gate_done(gs, r, r < 0 ? e : 0);
  logline("splice", r, r < 0 ? e : 0, po ? po : "?", pi, ex);
  errno = e;
  return r;
}

static int sync_common(const char *op, int fd, int (*realf)(int)) {
  if (!g_active) return realf(fd);
  const char *p = fdp(fd);
  if (pre_mut(K_FSYNC, op, p ? p : "?", NULL)) return -1;
  unsigned long gs = 0;
  int gated = p && GATE_ON(p);
  if (gated) gs = gate_req("fsync", p, NULL);
  int r = realf(fd);
  int e = errno;
  if (gated) gate_done(gs, r, r < 0 ? e : 0);
  logline(op, r, r < 0 ? e : 0, p ? p : "?", NULL, NULL);
  errno = e;
  return r;
}
int fsync(int fd) { REAL(fsync); return sync_common("fsync", fd, real_fsync); }
int fdatasync(int fd) { REAL(fdatasync); return sync_common("fdatasync", fd, real_fdatasync); }

static int rename_common(const char *op, int od, const char *o, int nd, const char *n, unsigned fl, int which) {
  char a1[PMAX], a2[PMAX];
  REAL(renameat); REAL(renameat2); REAL(rename);
  if (!g_active) {
    if (which == 0) return real_rename(o, n);
    if (which == 1) return real_renameat(od, o, nd, n);
    return real_renameat2(od, o, nd, n, fl);
  }
  abspath(a1, sizeof a1, od, o);
  abspath(a2, sizeof a2, nd, n);
  if (pre_mut(K_RENAME, op, a1, a2)) return -1;
  unsigned long gs = 0;
  int gated = GATE_ON(a1) || GATE_ON(a2);
  if (gated) { char ex[PMAX * 3]; esc(ex, sizeof ex, a2); gs = gate_req("rename", a1, ex); }
  int r = which == 0 ? real_rename(o, n) : which == 1 ? real_renameat(od, o, nd, n) : real_renameat2(od, o, nd, n, fl);
  int e = errno;
  if (gated) gate_done(gs, r, r < 0 ? e : 0);
  logline("rename", r, r < 0 ? e : 0, a1, a2, NULL);
  errno = e;
  return r;
}
int rename(const char *o, const char *n) { return rename_common("rename", AT_FDCWD, o, AT_FDCWD, n, 0, 0); }
int renameat(int od, const char *o, int nd, const char *n) { return rename_common("renameat", od, o, nd, n, 0, 1); }
int renameat2(int od, const char *o, int nd, const char *n, unsigned fl) { return rename_common("renameat2", od, o, nd, n, fl, 2); }

static int unlink_common(const char *op, int dfd, const char *p, int flags, int which) {
  REAL(unlink); REAL(unlinkat); REAL(rmdir);
  if (!g_active) return which == 0 ? real_unlink(p) : which == 1 ? real_unlinkat(dfd, p, flags) : real_rmdir(p);
  char a[PMAX];
  abspath(a, sizeof a, dfd, p);
  int isdir = which == 2 || (flags & AT_REMOVEDIR);
  if (pre_mut(isdir ? K_RMDIR : K_UNLINK, op, a, NULL)) return -1;
  unsigned long gs = 0;
  int gated = GATE_ON(a);
  if (gated) gs = gate_req("unlink", a, NULL);
  int r = which == 0 ? real_unlink(p) : which == 1 ? real_unlinkat(dfd, p, flags) : real_rmdir(p);
  int e = errno;
  if (gated) gate_done(gs, r, r < 0 ? e : 0);
  logline(isdir ? "rmdir" : "unlink", r, r < 0 ? e : 0, a, NULL, NULL);
  errno = e;
  return r;
}
int unlink(const char *p) { return unlink_common("unlink", AT_FDCWD, p, 0, 0); }
int unlinkat(int d, const char *p, int f) { return unlink_common("unlinkat", d, p, f, 1); }
int rmdir(const char *p) { return unlink_common("rmdir", AT_FDCWD, p, 0, 2); }

static int mkdir_common(int dfd, const char *p, mode_t m, int which) {
  REAL(mkdir); REAL(mkdirat);
  if (!g_active) return which == 0 ? real_mkdir(p, m) : real_mkdirat(dfd, p, m);
  char a[PMAX];
  abspath(a, sizeof a, dfd, p);
  if (pre_mut(K_MKDIR, "mkdir", a, NULL)) return -1;
  unsigned long gs = 0;
  int gated = GATE_ON(a);
  if (gated) gs = gate_req("mkdir", a, NULL);
  int r = which == 0 ? real_mkdir(p, m) : real_mkdirat(dfd, p, m);
  int e = errno;
  if (gated) gate_done(gs, r, r < 0 ? e : 0);
  logline("mkdir", r, r < 0 ? e : 0, a, NULL, NULL);
  errno = e;
  return r;
}
int mkdir(const char *p, mode_t m) { return mkdir_common(AT_FDCWD, p, m, 0); }
int mkdirat(int d, const char *p, mode_t m) { return mkdir_common(d, p, m, 1); }

int ftruncate64(int fd, off64_t len) {
  REAL(ftruncate64);
  if (!g_active) return real_ftruncate64(fd, len);
  const char *p = fdp(fd);
  if (pre_mut(K_TRUNC, "ftruncate", p ? p : "?", NULL)) return -1;
  int r = real_ftruncate64(fd, len);
  int e = errno;
  char ex[48]; snprintf(ex, sizeof ex, "len=%lld", (long long)len);
  logline("ftruncate", r, r < 0 ? e : 0, p ? p : "?", NULL, ex);
  errno = e;
  return r;
}
int ftruncate(int fd, off_t len) { return ftruncate64(fd, len); }

int futimens(int fd, const struct timespec ts[2]) {
  REAL(futimens);
  if (!g_active) return real_futimens(fd, ts);
  const char *p = fdp(fd);
  if (pre_mut(K_UTIME, "futimens", p ? p : "?", NULL)) return -1;
  int r = real_futimens(fd, ts);
  int e = errno;
  char ex[64]; snprintf(ex, sizeof ex, "mt=%lld.%09ld", ts ? (long long)ts[1].tv_sec : -1LL, ts ? ts[1].tv_nsec : 0L);
  logline("futimens", r, r < 0 ? e : 0, p ? p : "?", NULL, ex);
  errno = e;
  return r;
}
int utimensat(int dfd, const char *path, const struct timespec ts[2], int flags) {
  REAL(utimensat);
  if (!g_active) return real_utimensat(dfd, path, ts, flags);
  char a[PMAX];
  if (path) abspath(a, sizeof a, dfd, path); else snprintf(a, sizeof a, "%s", fdp(dfd) ? fdp(dfd) : "?");
  if (pre_mut(K_UTIME, "utimensat", a, NULL)) return -1;
  int r = real_utimensat(dfd, path, ts, flags);
  int e = errno;
  char ex[64]; snprintf(ex, sizeof ex, "mt=%lld.%09ld", ts ? (long long)ts[1].tv_sec : -1LL, ts ? ts[1].tv_nsec : 0L);
  logline("utimensat", r, r < 0 ? e : 0, a, NULL, ex);
  errno = e;
  return r;
}

int flock(int fd, int op) {
  REAL(flock);
  if (!g_active) return real_flock(fd, op);
  const char *p = fdp(fd);
  const char *nm = (op & LOCK_UN) ? "unlock" : "flock";
  if (g_gate && p && under_root(p)) {
    if (op & LOCK_UN) {
      unsigned long gs = gate_req("unlock", p, NULL);
      int r = real_flock(fd, op);
      int e = errno;
      gate_done(gs, r, r < 0 ? e : 0);
      logline(nm, r, r < 0 ? e : 0, p, NULL, NULL);
      errno = e;
      return r;
    }
    for (;;) {
      unsigned long gs = gate_req("flock", p, NULL);
      int r = real_flock(fd, op | LOCK_NB);
      int e = errno;
      if (r == 0 || (e != EWOULDBLOCK && e != EAGAIN) || (op & LOCK_NB)) {
        gate_done(gs, r, r < 0 ? e : 0);
        logline(nm, r, r < 0 ? e : 0, p, NULL, NULL);
        errno = e;
        return r;
      }
      gate_blocked(gs);
    }
  }
  int r = real_flock(fd, op);
  int e = errno;
  logline(nm, r, r < 0 ? e : 0, p ? p : "?", NULL, NULL);
  errno = e;
  return r;
}

/* stat family: traced (path arguments matter for C11) and gated under ROOT */
int statx(int dfd, const char *path, int flags, unsigned mask, struct statx *buf) {
  REAL(statx);
  if (!g_active) return real_statx(dfd, path, flags, mask, buf);
  char a[PMAX];
  if (path && *path) abspath(a, sizeof a, dfd, path); else snprintf(a, sizeof a, "%s", fdp(dfd) ? fdp(dfd) : "<fd>");
  int bypath = path && *path;
  unsigned long gs = 0;
  int gated = GATE_ON(a);
  if (gated) gs = gate_req("stat", a, NULL);
  int r = real_statx(dfd, path, flags, mask, buf);
  int e = errno;
  if (gated) gate_done(gs, r, r < 0 ? e : 0);
  if (bypath) logline("stat", r, r < 0 ? e : 0, a, NULL, (flags & AT_SYMLINK_NOFOLLOW) ? "l" : NULL);
  errno = e;
  return r;
}
#define STATLIKE(NAME, DFD, PATHEXPR, CALL, NOFOLLOW) \
  if (!g_active) return CALL; \
  char a[PMAX]; abspath(a, sizeof a, DFD, PATHEXPR); \
  unsigned long gs = 0; int gated = GATE_ON(a); \
  if (gated) gs = gate_req("stat", a, NULL); \
  int r = CALL; int e = errno; \
  if (gated) gate_done(gs, r, r < 0 ? e : 0); \
  logline("stat", r, r < 0 ? e : 0, a, NULL, NOFOLLOW ? "l" : NULL); \
  errno = e; return r;

int stat(const char *p, struct stat *st) { REAL(stat); STATLIKE(stat, AT_FDCWD, p, real_stat(p, st), 0) }
int lstat(const char *p, struct stat *st) { REAL(lstat); STATLIKE(lstat, AT_FDCWD, p, real_lstat(p, st), 1) }
int stat64(const char *p, struct stat64 *st) { REAL(stat64); STATLIKE(stat64, AT_FDCWD, p, real_stat64(p, st), 0) }
int lstat64(const char *p, struct stat64 *st) { REAL(lstat64); STATLIKE(lstat64, AT_FDCWD, p, real_lstat64(p, st), 1) }
int fstatat(int d, const char *p, struct stat *st, int f) { REAL(fstatat); STATLIKE(fstatat, d, p, real_fstatat(d, p, st, f), (f & AT_SYMLINK_NOFOLLOW)) }
int fstatat64(int d, const char *p, struct stat64 *st, int f) { REAL(fstatat64); STATLIKE(fstatat64, d, p, real_fstatat64(d, p, st, f), (f & AT_SYMLINK_NOFOLLOW)) }
int access(const char *p, int m) { REAL(access); STATLIKE(access, AT_FDCWD, p, real_access(p, m), 0) }

ssize_t readlink(const char *p, char *b, size_t n) {
  REAL(readlink);
  if (!g_active) return real_readlink(p, b, n);
  char a[PMAX]; abspath(a, sizeof a, AT_FDCWD, p);
  ssize_t r = real_readlink(p, b, n); int e = errno;
  logline("readlink", r, r < 0 ? e : 0, a, NULL, NULL);
  errno = e; return r;
}
char *realpath(const char *p, char *out) {
  REAL(realpath);
  if (!g_active) return real_realpath(p, out);
  char a[PMAX]; abspath(a, sizeof a, AT_FDCWD, p);
  char *r = real_realpath(p, out); int e = errno;
  logline("realpath", r ? 0 : -1, r ? 0 : e, a, NULL, NULL);
  errno = e; return r;
}
int symlink(const char *t, const char *l) {
  REAL(symlink);
  if (!g_active) return real_symlink(t, l);
  char a[PMAX]; abspath(a, sizeof a, AT_FDCWD, l);
  if (pre_mut(K_OPENW, "symlink", a, NULL)) return -1;
  int r = real_symlink(t, l); int e = errno;
  logline("symlink", r, r < 0 ? e : 0, a, t, NULL);
  errno = e; return r;
}
int link(const char *o, const char *n) {
  REAL(link);
  if (!g_active) return real_link(o, n);
  char a[PMAX], b[PMAX]; abspath(a, sizeof a, AT_FDCWD, o); abspath(b, sizeof b, AT_FDCWD, n);
  if (pre_mut(K_OPENW, "link", b, a)) return -1;
  int r = real_link(o, n); int e = errno;
  logline("link", r, r < 0 ? e : 0, b, a, NULL);
  errno = e; return r;
}
int chmod(const char *p, mode_t m) {
  REAL(chmod);
  if (!g_active) return real_chmod(p, m);
  char a[PMAX]; abspath(a, sizeof a, AT_FDCWD, p);
  int r = real_chmod(p, m); int e = errno;
  logline("chmod", r, r < 0 ? e : 0, a, NULL, NULL);
  errno = e; return r;
}

DIR *opendir(const char *p) {
  REAL(opendir);
  if (!g_active) return real_opendir(p);
  char a[PMAX]; abspath(a, sizeof a, AT_FDCWD, p);
  unsigned long gs = 0; int gated = GATE_ON(a);
  if (gated) gs = gate_req("opendir", a, NULL);
  DIR *d = real_opendir(p); int e = errno;
  if (gated) gate_done(gs, d ? 0 : -1, d ? 0 : e);
  if (d) setfd(dirfd(d), a);
  logline("opendir", d ? dirfd(d) : -1, d ? 0 : e, a, NULL, NULL);
  errno = e; return d;
}
struct dirent64 *readdir64(DIR *d) {
  REAL(readdir64);
  if (!g_active || !g_gate) return real_readdir64(d);
  const char *p = fdp(dirfd(d));
  if (p && under_root(p) && dirfd(d) < MAXFD && !g_rd_seen[dirfd(d)]) {
    g_rd_seen[dirfd(d)] = 1;
    unsigned long gs = gate_req("readdir", p, NULL);
    int saved = errno;
    struct dirent64 *r = real_readdir64(d);
    int e = errno;
    gate_done(gs, r ? 1 : 0, 0);
    errno = r ? saved : e;
    return r;
  }
  return real_readdir64(d);
}
int closedir(DIR *d) {
  REAL(closedir);
  if (g_active && d) setfd(dirfd(d), NULL);
  return real_closedir(d);
}

#ifdef FSMON_ALLOC
extern void *__libc_malloc(size_t);
extern void *__libc_calloc(size_t, size_t);
extern void *__libc_realloc(void *, size_t);
extern void *__libc_memalign(size_t, size_t);
extern void __libc_free(void *);
static size_t g_floor = 0;
static int g_floor_init = 0;
static void alloc_log(const char *op, size_t n) {
  if (!g_floor_init) {
    g_floor_init = 1;
    const char *f = getenv("FSMON_ALLOC_FLOOR");
    g_floor = f ? strtoull(f, NULL, 10) : 0;
  }
  if (!g_active || !g_floor || n < g_floor || g_logfd < 0) return;
  char b[96];
  unsigned long s = __atomic_add_fetch(&g_seq, 1, __ATOMIC_SEQ_CST);
  int k = snprintf(b, sizeof b, "%lu\t%ld\talloc\t0\t0\t-\t-\t%s=%zu\n", s, gettid_(), op, n);
  raw_write(g_logfd, b, (size_t)k);
}
void *malloc(size_t n) { alloc_log("malloc", n); return __libc_malloc(n); }
void *calloc(size_t a, size_t b) { size_t t; if (__builtin_mul_overflow(a, b, &t)) t = SIZE_MAX; alloc_log("calloc", t); return __libc_calloc(a, b); }
void *realloc(void *p, size_t n) { alloc_log("realloc", n); return __libc_realloc(p, n); }
void free(void *p) { __libc_free(p); }
void *memalign(size_t al, size_t n) { alloc_log("memalign", n); return __libc_memalign(al, n); }
void *aligned_alloc(size_t al, size_t n) { alloc_log("aligned_alloc", n); return __libc_memalign(al, n); }
int posix_memalign(void **out, size_t al, size_t n) {
  alloc_log("posix_memalign", n);
  void *p = __libc_memalign(al, n);
  if (!p) return ENOMEM;
  *out = p;
  return 0;
}
#endif
