use std::{env, fs, path::PathBuf};
fn main() {
    let repo = env::var("VERIF_REPO").unwrap_or_else(|_| "/repo".into());
    let out = PathBuf::from(env::var("OUT_DIR").unwrap()).join("bin_mods.rs");
    let mut s = String::new();
    for m in ["reconcile", "wire"] {
        let p = format!("{repo}/src/bin/copia/{m}.rs");
        s.push_str(&format!("#[path = \"{p}\"]\npub mod {m};\n"));
        println!("cargo:rerun-if-changed={p}");
    }
    fs::write(out, s).unwrap();
    println!("cargo:rerun-if-env-changed=VERIF_REPO");
}
