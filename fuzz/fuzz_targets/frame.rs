#![no_main]
//! Coverage-guided stage for C12: wire.rs compiled unchanged; read_frame::<Request> on arbitrary bytes.
use libfuzzer_sys::fuzz_target;

#[allow(dead_code, unused_imports, unexpected_cfgs)]
mod bin {
    include!(concat!(env!("OUT_DIR"), "/bin_mods.rs"));
}

fuzz_target!(|data: &[u8]| {
    let mut r = std::io::Cursor::new(data);
    if bin::wire::read_magic(&mut r).unwrap_or(false) || true {
        let mut r2 = std::io::Cursor::new(data);
        while let Ok(Some(_req)) = bin::wire::read_frame::<_, bin::wire::Request>(&mut r2) {}
    }
});
