#![no_main]
//! Coverage-guided stage for C20: every public decoder on the same bytes. libFuzzer's own
//! -malloc_limit_mb is the allocation monitor here; an artifact is NOT a verdict: bin/fuzz.sh
//! replays it through `vh replay-decode`, and only a reproduced panic / over-bound allocation counts.
use libfuzzer_sys::fuzz_target;
use std::io::Cursor;

fuzz_target!(|data: &[u8]| {
    let _ = copia::Message::decode(data);
    let _ = copia::Codec::new().read_message(&mut Cursor::new(data));
    if data.len() >= 12 {
        let mut h = [0u8; 12];
        h.copy_from_slice(&data[..12]);
        let _ = copia::FrameHeader::decode(&h);
    }
    let _ = bincode::deserialize::<copia::Signature>(data);
    if let Ok(d) = bincode::deserialize::<copia::Delta>(data) {
        let _ = d.validate();
        // a decoded delta is applied to a small basis: Ok => output hashes to its checksum (C05)
        if d.ops.len() < 64 && d.ops.iter().all(|o| o.output_len() < 1 << 16) {
            let basis = [7u8; 4096];
            let mut out = Vec::new();
            use copia::Sync;
            if copia::CopiaSync::new().patch(Cursor::new(&basis[..]), &d, &mut out).is_ok() {
                assert_eq!(blake3::hash(&out).as_bytes(), d.checksum.as_bytes(), "patch Ok with wrong bytes");
            }
        }
    }
});
