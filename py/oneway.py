"""One-way engine (sync -r in three directions) and the monitors of C04, C09, C14, C15."""
import os
import re
import shutil
import signal
import subprocess
import time
from multiprocessing import Pool

from common import asan_stage, COPIA, NCPU, Result, SplitMix, build, finish, seed, workdir
from fsutil import (copy_tree, clear_standin_log, HOSTILE_COMPONENTS, MUTATING, STAGING, base_env, clear_traces, content_map, install_standin, is_staging, name_class, read_standin_log, read_traces, rmtree, run, set_mtime, shim_env, snapshot, wait_group_gone, write_file)

DIRECTIONS = ("local", "push", "pull")
MTIMES = [(0, 0), (1, 0), (1_600_000_000, 1), (1_600_000_000, 500_000_000), (1_600_000_000, 999_999_999), (2_147_483_647, 0), (2_147_483_648, 0), (4_102_444_800, 0), (9_999_999_999, 0), (1_700_000_000, 0), (1_234_567_890, 123_456_789)]
SIZES = [0, 0, 1, 2, 17, 100, 4096, 8191, 8192, 8193, 70_000, 262_143, 262_144, 262_145, 600_000]


# ------------------------------------------------------------------ reference model
def wild(pat, text):
    n, m = len(pat), len(text)
    dp = [False] * (m + 1)
    dp[0] = True
    for i in range(1, n + 1):
        pc = pat[i - 1]
        nd = [False] * (m + 1)
        if pc == "*":
            nd[0] = dp[0]
            for j in range(1, m + 1):
                nd[j] = dp[j] or nd[j - 1]
        else:
            for j in range(1, m + 1):
                nd[j] = dp[j - 1] and (pc == "?" or pc == text[j - 1])
        dp = nd
    return dp[m]


def excluded(rel, pats):
    for p in pats:
        p = p.rstrip("/")
        if not p:
            continue
        if "/" in p:
            if wild(p, rel):
                return True
        else:
            for comp in rel.split("/"):
                if comp and wild(p, comp):
                    return True
    return False


def model_plan(src, dst, pats, delete):
    """src/dst: rel -> (size, mtime_sec). Returns (transfer set, skipped count, delete set)."""
    live = [p for p in src if not excluded(p, pats)]
    transfer = {p for p in live if p not in dst or dst[p][0] != src[p][0] or dst[p][1] != src[p][1]}
    dele = {p for p in dst if p not in src and not excluded(p, pats)} if delete else set()
    return transfer, len(live) - len(transfer), dele


# ------------------------------------------------------------------ case generation
def gen_names(rng, n, hostile=True, alphabet=None):
    names = []
    tries = 0
    while len(names) < n and tries < 200:
        tries += 1
        depth = rng.pick([1, 1, 1, 2, 2, 3, 4])
        comps = []
        for _ in range(depth):
            if alphabet:
                c = "".join(rng.pick(alphabet) for _ in range(rng.range(1, 4)))
                if c in (".", ".."):
                    continue
            elif hostile and rng.chance(2, 3):
                c = rng.pick(HOSTILE_COMPONENTS)
            else:
                c = rng.pick(["a", "b", "src", "lib.rs", "x.tmp", "target", "notes.txt", "d1", "d2"])
            comps.append(c)
        if not comps:
            continue
        p = "/".join(comps)
        if p.endswith(STAGING) or len(p.encode()) > 900:
            continue
        # regular files only: no path may be a directory prefix of another
        if any(q == p or q.startswith(p + "/") or p.startswith(q + "/") for q in names):
            continue
        names.append(p)
    # escaping twins: a name and the name an unescaped shell string would denote instead
    # (`a\\b` read without escaping is `a\b`): both present, with different contents
    if hostile and not alphabet and names and rng.chance(1, 3):
        cands = [p for p in names if "\\" in p.split("/")[-1]]
        if cands:
            p = rng.pick(cands)
            twin = p.replace("\\", "\\\\")
            if twin not in names and not any(q.startswith(twin + "/") or twin.startswith(q + "/") for q in names) and len(twin.encode()) < 900:
                names.append(twin)
    return names


def gen_content(rng, size=None):
    n = rng.pick(SIZES) if size is None else size
    if size is None and rng.chance(1, 40):
        n = rng.pick([1 << 20, (1 << 20) - 1, (1 << 20) + 1, (2 << 20) + 5])  # at and around 1 MiB, above 2 MiB
    if n == 0:
        return b""
    k = rng.below(3)
    if k == 0:
        return rng.bytes(n)
    if k == 1:
        return (b"0123456789abcdef" * (n // 16 + 1))[:n]
    return bytes([rng.below(256)]) * n


ROOTSPELL = True
_read_traces_raw = read_traces


def norm_slashes(p):
    """`/x//src/a` and `/x/src/a` are one path: roots may be spelled with doubled or trailing slashes."""
    if not p or "//" not in p and not p.endswith("/"):
        return p
    q = re.sub(r"/+", "/", p)
    return q.rstrip("/") if len(q) > 1 else q


def read_traces(prefix):  # noqa: F811 - this module's oracles compare path strings with the roots' canonical spelling
    tr = _read_traces_raw(prefix)
    for pid in tr:
        for e in tr[pid]:
            e.p1, e.p2 = norm_slashes(e.p1), norm_slashes(e.p2)
    return tr


def gen_case(rng, direction, opts=None):
    """Returns dict(src, dst, flags...). src/dst: rel -> (bytes, (sec, nsec))."""
    opts = opts or {}
    nfiles = rng.range(1, opts.get("max_files", 12))
    alphabet = opts.get("alphabet")
    names = gen_names(rng, nfiles, hostile=opts.get("hostile", True), alphabet=alphabet)
    if opts.get("no_newline"):
        names = [n for n in names if "\n" not in n] or ["plain"]
    src, dst, states = {}, {}, {}
    for p in names:
        data = gen_content(rng)
        mt = rng.pick(MTIMES) if opts.get("mtime_sweep", True) else (1_700_000_000 + rng.below(1000), rng.below(10 ** 9))
        st = rng.pick(["absent", "absent", "same", "same", "size", "mtime", "srcgone"])
        states[p] = st
        if st == "srcgone":
            # destination-only file (stale)
            dst[p] = (data, mt)
            continue
        src[p] = (data, mt)
        if st == "same":
            # quick check matches: same size + whole-second mtime, content and nanoseconds may differ
            d2 = bytes((b ^ 0x55) for b in data) if rng.chance(1, 2) else data
            dst[p] = (d2, (mt[0], (mt[1] + 7) % 1_000_000_000))
        elif st == "size":
            dst[p] = (data + b"+", mt)
        elif st == "mtime":
            dst[p] = (data, (mt[0] + rng.pick([1, 2, 3600, -1]) if mt[0] > 0 else 5, mt[1]))
    # a tree that once was (or still is) a hub: `.copia/commit.lock` and friends are ordinary files to a mirror
    if opts.get("hubdir", True) and rng.chance(1, 12):
        for p, where in ((".copia/commit.lock", "both"), (".copia/notes.txt", rng.pick(["src", "dst", "both"])), (".copia/sub/x", rng.pick(["src", "dst"]))):
            data = gen_content(rng, rng.pick([0, 17, 100]))
            if where in ("src", "both"):
                src[p] = (data, (1_700_000_000, 0))
                names.append(p)
            if where in ("dst", "both"):
                dst[p] = (data if where == "both" and rng.chance(1, 2) else data + b"+", (1_600_000_000, 0))
    clash_pats = []
    # failure branch: a destination DIRECTORY where the source has a file
    if opts.get("clash", True) and src and rng.chance(1, 10):
        victim = rng.pick(sorted(src))
        dst.pop(victim, None)
        dst[victim + "/inner"] = (b"inner", (1_600_000_000, 0))
        states[victim] = "clash"
        # ... and inside that directory a file an exclude pattern protects: the run cannot put the source file
        # there (it fails loudly), and whatever it does about the directory, the protected file stays
        r4 = SplitMix.derive(rng.s, "clash-protected", 0)
        if r4.chance(1, 2) and len((victim + "/keep.log").encode()) < 900:
            dst[victim + "/keep.log"] = (b"protected by an exclude", (1_600_000_000, 0))
            clash_pats.append(r4.pick(["*.log", "keep.log", "keep.*", "k??p.log"]))
    # siblings whose name EXTENDS another's (`data` beside `data.old`, `target` beside `target-x86`, `f` beside
    # `f.bak`), the longer one excluded by a slash-free pattern, present on both sides: a walk that recognises
    # "still inside the directory I just visited" by string prefix cuts the longer name in the middle. Drawn from a
    # side stream so that the trees above stay what they were.
    r3 = SplitMix.derive(rng.s, "prefix-siblings", 0)
    sib_pats = []
    if opts.get("prefix_siblings", True) and r3.chance(1, 4):
        pool = [p for p in names if "/" in p and "\n" not in p and p in src] or None
        if pool is None:
            base = r3.pick(["data", "proj/target", "a b"])
            for p, d in ((base + "/keep.txt", b"keep"), (base + "/z-last", b"z")):
                if not any(q == p or q.startswith(p + "/") or p.startswith(q + "/") for q in names):
                    src[p] = (d, (1_700_000_000, 0))
                    names.append(p)
            pool = [p for p in names if p.startswith(base + "/")]
        if pool:
            victim = r3.pick(pool)
            comps = victim.split("/")
            lvl = r3.below(len(comps) - 1)  # a directory component of the victim
            suffix = r3.pick([".old", "-x86", "2", " copy", "~", ".d"])
            ext = "/".join(comps[:lvl] + [comps[lvl] + suffix])
            for leaf, where in (("secret.txt", "src"), ("precious.txt", "dst"), ("both.txt", "both")):
                p = ext + "/" + leaf
                if any(q == p or q.startswith(p + "/") or p.startswith(q + "/") for q in names) or len(p.encode()) > 900:
                    continue
                names.append(p)
                if where in ("src", "both"):
                    src[p] = (b"src bytes of " + leaf.encode(), (1_700_000_000, 0))
                if where in ("dst", "both"):
                    dst[p] = (b"dst bytes of " + leaf.encode() + b"+", (1_600_000_000, 0))
                states[p] = "sibling-" + where
            sib_pats.append(r3.pick([comps[lvl] + suffix, "*" + suffix, comps[lvl] + suffix + "/", comps[lvl][:1] + "*" + suffix]))
    # a source that contributes NOTHING (emptied, or nothing but destination-only files) while the destination is
    # populated: with --delete the plan is "delete everything that is not excluded", and a dry run says so
    r6 = SplitMix.derive(rng.s, "empty-source", 0)
    empty_source = opts.get("empty_source", True) and r6.chance(1, 14) and not clash_pats
    if empty_source:
        for pth in list(src):
            if pth not in dst:
                dst[pth] = (src[pth][0] + b"!", (1_600_000_000, 0))
            states[pth] = "srcgone"
            del src[pth]
    # exclude patterns drawn from the tree's own names
    pats = list(sib_pats) + clash_pats if opts.get("excludes", True) else []
    for _ in range(rng.pick([0, 0, 1, 1, 2, 3]) if opts.get("excludes", True) else 0):
        base = rng.pick(names)
        comps = base.split("/")
        k = rng.below(6)
        if k == 5:
            # spellings a path library would normalise to `base`; as patterns they are literal text
            s = rng.pick([base.replace("/", "//", 1), base.replace("/", "/./", 1), base + "/.", "./" + base, "x/../" + base])
            pats.append(s)
            continue
        if k == 0:
            s = base
        elif k == 1:
            s = comps[0]
        elif k == 2:
            s = comps[-1]
        elif k == 3:
            s = "*" + comps[-1][-3:] if len(comps[-1]) >= 3 else "*"
        else:
            s = comps[0] + "/*" if len(comps) > 1 else comps[0]
        s = "".join(("?" if rng.chance(1, 2) else "*") if (ch != "/" and rng.chance(1, 6)) else ch for ch in s)
        if rng.chance(1, 8):
            s += "/"
        if "\n" in s and direction != "local" and False:
            continue
        if rng.chance(1, 10):
            # a pattern that is empty once its trailing slashes are trimmed matches nothing and changes nothing
            # about the patterns after it
            pats.append(rng.pick(["/", "//", ""]))
        pats.append(s)
    flags = {"delete": (True if empty_source and opts.get("delete", True) else rng.chance(1, 2)) if opts.get("delete", True) else False, "excludes": pats, "jobs": rng.pick([1, 2, 4, 16]), "verbose": rng.chance(1, 4)}
    rootname = "dst"
    srcname = "src"
    if opts.get("hostile_roots", True) and rng.chance(1, 4):
        rootname = rng.pick(["dst root", "d'st", "dst$x", "dśt", "d*st", "dst\\n", "dst\nline"])
        srcname = rng.pick(["src root", "s'rc", "src", "s$rc"])
    case = {"src": src, "dst": dst, "states": states, "flags": flags, "direction": direction, "dstname": rootname, "srcname": srcname, "dst_exists": bool(dst) or rng.chance(2, 3), "empty_source": bool(empty_source)}
    # environment of the trees (drawn from a separate stream so the trees above stay what they were):
    #  - write-protected files on either side (mode 0444: still replaceable by rename, still deletable)
    #  - what an earlier interrupted or failed run leaves behind: `<path>.copia-tmp` beside a path, longer than
    #    the file that will be staged there
    #  - a root that is named through a symbolic link to the directory (`/srv/app/current`)
    r2 = SplitMix.derive(rng.next(), "env", 0)
    if opts.get("env", True):
        ro = set()
        if r2.chance(1, 3):
            ro = {("dst", p) for p in dst if r2.chance(1, 2)} | {("src", p) for p in src if r2.chance(1, 4)}
        case["readonly"] = sorted(ro)
        left = {}
        if opts.get("leftover", True) and r2.chance(1, 4):
            for p in sorted(src):
                if r2.chance(1, 2) and (p + STAGING) not in src and (p + STAGING) not in dst and len(p.split("/")[-1].encode()) < 240:
                    n = len(src[p][0])
                    # longer than, exactly as long as, or shorter than the file that will be staged there
                    ln = r2.pick([n + r2.range(1, 9000), n + 1, n, n, max(0, n - 1), n // 2])
                    left[p + STAGING] = (r2.bytes(ln), (1_650_000_000, 0))
        case["leftover_staging"] = left
        # things that are not regular files and that a lived-in tree contains anyway: links that do not
        # resolve, empty directories, FIFOs.  They are nobody's to transfer or delete.
        extras = []
        if opts.get("extras", True) and r2.chance(1, 4):
            dirs = sorted({os.path.dirname(p) for p in list(src) + list(dst)})
            for i in range(r2.range(1, 3)):
                side = r2.pick(["dst", "dst", "src"])
                d = r2.pick(dirs) if dirs else ""
                if side == "dst" and any(st == "clash" for st in states.values()):
                    d = ""
                extras.append((side, os.path.join(d, "zz.extra-%d" % i), r2.pick(["dangling", "dangling", "loop", "emptydir", "fifo"])))
            gone = sorted(p for p, st in states.items() if st == "srcgone")
            if gone and r2.chance(1, 2):
                # ... and one in the source at the very path of a destination-only file: the source has no FILE
                # there, so with --delete the stale destination file still goes
                extras.append(("src", r2.pick(gone), r2.pick(["emptydir", "fifo", "dangling", "loop"])))
        # a link that does not resolve, at the destination, at the very path where a source FILE is about to be delivered
        # (a dangling `current -> releases/42`): delivery replaces the link; whoever writes THROUGH it creates its target
        # - in the destination, or, with a target that climbs out, in the source tree
        r5 = SplitMix.derive(r2.s, "dangling-at-planned", 0)
        planned_absent = sorted(p for p, st in states.items() if st == "absent" and p in src and p not in dst and "\n" not in p)
        if opts.get("extras", True) and planned_absent and r5.chance(1, 6):
            victim = r5.pick(planned_absent)
            up = "../" * victim.count("/")
            extras.append(("dst", victim, r5.pick(["dangling:ghost-target", "dangling:sub/ghost-target", "dangling:" + up + "../" + case["srcname"] + "/ghost-in-source"])))
        case["extras"] = extras
        case["dst_symlink"] = r2.chance(1, 8)
        case["src_symlink"] = r2.chance(1, 8)
        # how the roots are spelled on the command line: a trailing slash on either or both, a doubled slash inside
        case["rootspell"] = r2.pick([None, None, None, None, "slash", "slash-src", "slash-dst", "dslash"]) if ROOTSPELL else None
    return case


def gen_many_case(rng, direction, stale_heavy=None):
    """Hundreds of small files in about 150 directories with long names: the directory list, the file
    listing and the delete list each exceed 64 KiB, the transfer queue is far longer than any job count."""
    n = rng.range(300, 600)
    src, dst, states = {}, {}, {}
    new, old = (1_700_000_000, 0), (1_600_000_000, 0)
    # in half of the cases most of the destination is stale, so that the delete list alone is well over 64 KiB
    pick = rng.chance(1, 2)
    stale_heavy = pick if stale_heavy is None else stale_heavy
    # in half of these trees every name is mostly 2- and 3-byte characters: a listing or a delete list that is read or
    # written in pieces has a character across every piece boundary
    uni = SplitMix.derive(rng.s, "many-unicode", 0).chance(1, 2)
    fx, fy = ("\u00e9\u8a9e" * 25, "\u8a9e\u00e9" * (24 if stale_heavy else 5)) if uni else ("x" * 100, "y" * (120 if stale_heavy else 20))
    for i in range(n):
        p = "dir-%03d-%s/file-%04d-%s" % (i % 150, fx, i, fy)
        data = b"content %d" % i
        st = rng.pick(["absent", "same", "srcgone", "srcgone", "srcgone", "srcgone", "srcgone", "size"] if stale_heavy else ["absent", "absent", "absent", "same", "same", "size", "srcgone", "srcgone"])
        states[p] = st
        if st == "srcgone":
            dst[p] = (data, old)
            continue
        src[p] = (data, new)
        if st == "same":
            dst[p] = (data, new)
        elif st == "size":
            dst[p] = (data + b"+", old)
    flags = {"delete": True if stale_heavy else rng.chance(2, 3), "excludes": rng.pick([[], [], ["file-00*"], ["dir-01*"]]), "jobs": rng.pick([1, 4, 16, 64]), "verbose": False}
    return {"src": src, "dst": dst, "states": states, "flags": flags, "direction": direction, "dstname": "dst", "srcname": "src", "dst_exists": True}


class OneWay:
    """Materialised case in a scratch root with the ssh stand-in installed."""

    def __init__(self, root, case):
        self.root = root
        rmtree(root)
        os.makedirs(root)
        self.case = case
        self.home = os.path.join(root, "home")
        os.makedirs(self.home)
        self.bindir = install_standin(os.path.join(root, "bin"))
        self.sshlog = os.path.join(root, "ssh.log")
        self.parent = os.path.join(root, "t")
        os.makedirs(self.parent)
        self.src = os.path.join(self.parent, case["srcname"])
        self.dst = os.path.join(self.parent, case["dstname"])
        self.real_dirs = []
        left = case.get("leftover_staging") or {}
        dst_needed = bool(case["dst_exists"] or case["dst"] or left)
        for path, want_link, needed in ((self.src, case.get("src_symlink"), True), (self.dst, case.get("dst_symlink"), dst_needed)):
            if not needed:
                continue
            if want_link:
                real = os.path.join(self.parent, "real-%d" % len(self.real_dirs))
                os.makedirs(real)
                os.symlink(os.path.basename(real), path)
                self.real_dirs.append(os.path.basename(real))
            else:
                os.makedirs(path)
        self.fs_dropped = 0
        for p, (data, mt) in case["src"].items():
            self._put(self.src, p, data, mt)
        for p, (data, mt) in case["dst"].items():
            self._put(self.dst, p, data, mt)
        for p, (data, mt) in left.items():
            self._put(self.dst, p, data, mt)
        for side, p, kind in case.get("extras") or []:
            full = os.path.join(self.src if side == "src" else self.dst, p)
            try:
                os.makedirs(os.path.dirname(full), exist_ok=True)
                if kind.startswith("dangling:"):
                    os.symlink(kind.split(":", 1)[1], full)
                elif kind == "dangling":
                    os.symlink("no-such-target", full)
                elif kind == "loop":
                    os.symlink(os.path.basename(full), full)
                elif kind == "emptydir":
                    os.makedirs(full)
                else:
                    os.mkfifo(full)
            except OSError:
                pass
        for p, q in case.get("dst_hardlinks") or []:
            # a second name inside the destination for the inode of a file about to be replaced (a rotated log kept with
            # `ln`): it is outside the plan, so whatever happens to the planned path must not show through it
            try:
                os.link(os.path.join(self.dst, p), os.path.join(self.dst, q))
            except OSError:
                pass
        for side, p in case.get("readonly") or []:
            try:
                os.chmod(os.path.join(self.src if side == "src" else self.dst, p), 0o444)
            except OSError:
                pass

    def _put(self, base, p, data, mt):
        full = os.path.join(base, p)
        try:
            write_file(full, data, mt)
        except OSError:
            self.fs_dropped += 1
            return
        st = os.stat(full)
        if st.st_mtime_ns != mt[0] * 1_000_000_000 + mt[1]:
            # the file system cannot represent this mtime: drop the value from the case
            set_mtime(full, (1_700_000_000, 0))
            self.fs_dropped += 1

    def env(self, extra=None):
        e = base_env(self.home, path_prefix=self.bindir)
        e["SSH_STANDIN_LOG"] = self.sshlog
        if self.case.get("envv") == "tmpdir-other-fs":
            # a temporary directory on ANOTHER file system than the trees (tmpfs): anything staged there cannot be
            # renamed into place; the unchanged tree stages beside the destination and never looks at TMPDIR
            t = other_fs_dir(self.root)
            if t:
                e["TMPDIR"] = t
                self.tmp_other = t
        if extra:
            e.update(extra)
        return e

    def argv(self, dry=False, flags=None):
        fl = flags if flags is not None else self.case["flags"]
        d = self.case["direction"]
        sp = self.case.get("rootspell")
        ssrc, sdst = self.src, self.dst
        if sp in ("slash", "slash-src"):
            ssrc += "/"
        if sp in ("slash", "slash-dst"):
            sdst += "/"
        if sp == "dslash":
            ssrc = os.path.dirname(ssrc) + "//" + os.path.basename(ssrc)
            sdst = os.path.dirname(sdst) + "//" + os.path.basename(sdst)
        s = ssrc if d != "pull" else "vh:" + ssrc
        t = sdst if d != "push" else "vh:" + sdst
        a = ["sync", "-r", s, t, "--jobs", str(fl.get("jobs", 4))]
        if fl.get("delete"):
            a.append("--delete")
        for p in fl.get("excludes", []):
            a.append("--exclude=" + p)  # '=' form: a pattern may start with a dash
        if fl.get("verbose"):
            a.append("--verbose")
        if dry:
            a.append("--dry-run")
        return a

    def meta(self, which):
        """rel -> (size, mtime_sec) as the model sees it, from the live tree."""
        base = self.src if which == "src" else self.dst
        sn = snapshot(base)
        return {p: (r["size"], r["mtime_ns"] // 1_000_000_000) for p, r in sn.items() if r.get("kind") == "f"}, sn

    def destroy(self):
        rmtree(self.root)
        if getattr(self, "tmp_other", None):
            rmtree(self.tmp_other)


def other_fs_dir(root):
    """A scratch directory on a file system other than root's (None if this machine has none)."""
    import hashlib
    try:
        if os.stat("/dev/shm").st_dev == os.stat(root).st_dev:
            return None
        t = "/dev/shm/vh-tmp-" + hashlib.md5(root.encode()).hexdigest()[:12]
        os.makedirs(t, exist_ok=True)
        return t
    except OSError:
        return None


PLAN_RE = re.compile(r"Plan: (\d+) to transfer, (\d+) unchanged \(skipped\), (\d+) to delete")
DONE_RE = re.compile(r"Complete: (\d+) sent, (\d+) skipped, (\d+) deleted, (\d+) failed")


def same_rec(a, b, fields=("id", "size", "mtime_ns", "ctime_ns", "ino")):
    return all(a.get(f) == b.get(f) for f in fields)


def check_delivery(ow, r, src0, dst0, src1, dst1, transfer, skipped, dele, viol, label, strict_counts=True):
    """C04 oracle on one finished run. src0/dst0: snapshots before; src1/dst1 after."""
    d = ow.case["direction"]
    # source never modified
    for p in set(src0) | set(src1):
        if p not in src1 or p not in src0 or not same_rec(src0[p], src1[p]):
            viol("C04|%s|source-modified" % d, dict(label, path=p))
            break
    f0 = {p: x for p, x in dst0.items() if x.get("kind") == "f"}
    f1 = {p: x for p, x in dst1.items() if x.get("kind") == "f"}
    if r.code == 0:
        for p in transfer:
            if p not in f1:
                viol("C04|%s|exit0-planned-file-missing" % d, dict(label, path=p))
            elif f1[p]["id"] != src0[p]["id"]:
                viol("C04|%s|exit0-planned-file-bytes-differ" % d, dict(label, path=p))
            elif f1[p]["mtime_ns"] // 1_000_000_000 != src0[p]["mtime_ns"] // 1_000_000_000:
                viol("C04|%s|exit0-mtime-not-carried" % d, dict(label, path=p, got=f1[p]["mtime_ns"], want=src0[p]["mtime_ns"]))
        for p in dele:
            if p in f1 and not is_staging(p):
                viol("C04|%s|exit0-stale-file-not-deleted" % d, dict(label, path=p))
        for p, x in f0.items():
            if p in transfer or p in dele:
                continue
            if is_staging(p) and p[: -len(STAGING)] in transfer:
                continue  # a reserved name beside a planned path: the run may reuse and consume it
            if p not in f1:
                viol("C04|%s|exit0-unplanned-file-removed" % d, dict(label, path=p))
            elif not same_rec(x, f1[p]):
                viol("C04|%s|exit0-unplanned-file-changed" % d, dict(label, path=p, before={k: x[k] for k in ("id", "mtime_ns", "ino")}, after={k: f1[p][k] for k in ("id", "mtime_ns", "ino")}))
        for p in f1:
            if p not in f0 and p not in transfer:
                if is_staging(p):
                    viol("C04|%s|exit0-staging-file-remains" % d, dict(label, path=p))
                else:
                    viol("C04|%s|exit0-unplanned-file-created" % d, dict(label, path=p))
        if strict_counts:
            m = PLAN_RE.search(r.stderr)
            if m and (int(m.group(1)), int(m.group(2)), int(m.group(3))) != (len(transfer), skipped, len(dele)):
                viol("C04|%s|plan-line-differs-from-model" % d, dict(label, line=m.group(0), model=[len(transfer), skipped, len(dele)]))
            m2 = DONE_RE.search(r.stdout)
            if m2 and (int(m2.group(1)), int(m2.group(2)), int(m2.group(3)), int(m2.group(4))) != (len(transfer), skipped, len(dele), 0):
                viol("C04|%s|complete-line-differs-from-model" % d, dict(label, line=m2.group(0), model=[len(transfer), skipped, len(dele)]))
    else:
        if "Error" not in r.stderr and "FAILED" not in r.stderr and "error:" not in r.stderr:
            viol("C04|%s|nonzero-exit-without-error-report" % d, dict(label, run=r.brief()))
        for p, x in f0.items():
            if p in transfer or p in dele or is_staging(p):
                continue
            if p not in f1 or not same_rec(x, f1[p]):
                viol("C04|%s|nonzero-exit-touched-outside-plan" % d, dict(label, path=p))
        for p in f1:
            if p not in f0 and p not in transfer and not is_staging(p):
                viol("C04|%s|nonzero-exit-created-outside-plan" % d, dict(label, path=p))


def run_case(ow, dry=False, trace=None, delay=None, fail=None, flags=None, timeout=90, env_extra=None):
    env = ow.env(env_extra)
    if trace or delay or fail:
        env = shim_env(env, log=trace, delay=delay, fail_at=fail[0] if fail else None, fail_class=fail[1] if fail else None)
    return run(ow.argv(dry=dry, flags=flags), env, cwd=ow.home, timeout=timeout)


def outside_snapshot(ow):
    """home and the parent of the roots: anything appearing there is 'created outside the plan'."""
    s = {}
    for base, tag in ((ow.home, "home"), (ow.parent, "parent")):
        for p, r in snapshot(base).items():
            if tag == "parent" and (p.startswith(ow.case["srcname"] + "/") or p.startswith(ow.case["dstname"] + "/") or any(p.startswith(d + "/") for d in ow.real_dirs)):
                continue
            if tag == "home" and p.startswith(".copia/"):
                continue
            s[tag + ":" + p] = r.get("id")
    return s


# ------------------------------------------------------------------ C04
def _c04_worker(args):
    seedv, lo, hi, wroot = args
    res = {"evaluations": 0, "distinct": set(), "viol": [], "counters": {}, "samples": [], "inconclusive": 0}

    def cnt(k, n=1):
        res["counters"][k] = res["counters"].get(k, 0) + n

    orders = set()
    for idx in range(lo, hi):
        for direction in DIRECTIONS:
            rng = SplitMix.derive(seedv, "c04", idx)  # same trees in all three directions
            case = gen_case(rng, direction)
            if idx % 40 == 7:
                case = gen_many_case(rng, direction)
                cnt("cases_with_hundreds_of_files")
            ow = OneWay(os.path.join(wroot, "w%d" % lo), case)
            fl = case["flags"]
            srcm, src0 = ow.meta("src")
            dstm, dst0 = ow.meta("dst")
            transfer, skipped, dele = model_plan(srcm, dstm, fl["excludes"], fl["delete"])
            out0 = outside_snapshot(ow)
            mode = rng.below(10)
            trace = os.path.join(ow.root, "tr")
            delay = "%d:%d" % (rng.below(1 << 30), rng.pick([200, 2000, 20000])) if mode >= 5 else None
            fail = None
            label = {"case": idx, "direction": direction, "flags": fl, "files": len(case["src"]), "dstname": case["dstname"], "srcname": case["srcname"]}
            found = []

            def viol(sig, det):
                found.append((sig, det))

            if mode == 9 and transfer:
                fail = ("%d:%d" % (rng.range(1, 6), rng.pick([5, 28])), rng.pick(["datawrite", "rename", "mutating"]))
            sshfault = None
            plain = sorted(p for p in transfer if re.fullmatch(r"[A-Za-z0-9._/-]+", p) and case["dstname"] == "dst" and case["srcname"] == "src")
            if (mode == 8 or idx % 80 == 7) and direction != "local" and plain:
                # the ssh client of one planned file's transfer dies: unlike a fault inside copia this is the
                # ordinary way a transfer fails, and exit status 0 still has to mean "everything delivered"
                victim = rng.pick(plain)
                # the needle names this one file's transfer command and nothing else (a bare "/name" would also
                # match the listing and mkdir commands whenever the name is a prefix of a root or directory name:
                # a failed LISTING is a different fault, after which the unchanged tree re-sends everything)
                needle = ("/dst/" + victim + ".copia-tmp") if direction == "push" else ("/src/" + victim + "'")
                if src0[victim]["size"] < 70000:
                    sshfault = rng.pick(["kill-before", "exit-before", "run-then-kill", "run-then-exit", "partial-out-then-term"]) + ":" + needle
                else:
                    sshfault = rng.pick(["kill-before", "run-then-kill", "partial-out-then-kill", "partial-in-then-kill", "partial-out-then-kill", "partial-in-then-kill"]) + ":" + needle
                label["ssh_client_fault"] = sshfault
                cnt("runs_with_a_failing_ssh_client[%s]" % sshfault.split(":")[0])
            unreadable = None
            subdirs = sorted({os.path.dirname(p) for p in srcm if os.path.dirname(p) and re.fullmatch(r"[A-Za-z0-9._/-]+", os.path.dirname(p))})
            # (not in the ASan variant: the sanitizer runtime itself aborts when, as `nobody`, it cannot create its log
            # directory under the root-owned work area - seen once in the first thorough pass)
            if mode == 7 and direction != "pull" and subdirs and not sshfault and not fail and not case.get("src_symlink") and not case.get("dst_symlink") and os.environ.get("VERIF_VARIANT") != "asan":
                # part of the source cannot be listed by the invoking user (the checks run as root, which ignores mode
                # bits, so this one run is made as `nobody`): the listing is incomplete, and exit status 0 would claim
                # a mirror that was never made
                unreadable = rng.pick(subdirs)
                # ... or, in half of these runs, ONE planned source file is unreadable instead: it cannot be delivered,
                # so exit status 0 would claim a file that never arrived (a scan that skips what it cannot read)
                plain_planned = sorted(p for p in transfer if re.fullmatch(r"[A-Za-z0-9._/-]+", p))
                if plain_planned and SplitMix.derive(rng.s, "unreadable-file", 0).chance(1, 2):
                    unreadable = SplitMix.derive(rng.s, "unreadable-file", 1).pick(plain_planned)
                    label["unreadable_source_file"] = unreadable
                    cnt("runs_as_nobody_with_an_unreadable_source_file")
                subprocess.run(["chown", "-R", "65534:65534", ow.root], capture_output=True)
                # (chown touches every ctime: the "before" snapshots are taken again, as root, before the mode change)
                srcm, src0 = ow.meta("src")
                dstm, dst0 = ow.meta("dst")
                out0 = outside_snapshot(ow)
                is_dir = os.path.isdir(os.path.join(ow.src, unreadable))
                os.chmod(os.path.join(ow.src, unreadable), 0)
                if not is_dir:
                    # (the mode change moved the file's ctime: the "before" snapshot of the source is taken once more,
                    # as root; the mode is left as it is until the scratch tree is removed)
                    _, src0 = ow.meta("src")
                if is_dir:
                    label["unlistable_source_directory"] = unreadable
                    cnt("runs_as_nobody_with_an_unlistable_source_directory")
                env_n = ow.env()
                env_n = shim_env(env_n, log=trace)
                r = run(["--reuid=65534", "--regid=65534", "--clear-groups", COPIA] + ow.argv(), env_n, cwd=ow.home, timeout=90, copia="setpriv")
                if is_dir:
                    os.chmod(os.path.join(ow.src, unreadable), 0o755)
            else:
                r = run_case(ow, trace=trace, delay=delay, fail=fail, env_extra={"SSH_STANDIN_FAULT": sshfault} if sshfault else None)
            if r.timed_out:
                res["inconclusive"] += 1
                ow.destroy()
                continue
            _, src1 = ow.meta("src")
            _, dst1 = ow.meta("dst")
            injected = False
            if fail:
                tr = read_traces(trace)
                injected = any(e.op == "FAIL" for pid in tr for e in tr[pid])
            res["evaluations"] += 1
            cnt("runs[%s]" % direction)
            if injected and r.code == 0:
                # injected I/O faults are outside the quantifier; exit-0 clauses are not applied (DESIGN 4.11)
                cnt("injected_fault_but_exit0")
            else:
                check_delivery(ow, r, src0, dst0, src1, dst1, transfer, skipped, dele, viol, label)
            out1 = outside_snapshot(ow)
            for k in out1:
                if k not in out0:
                    viol("C04|%s|file-created-outside-destination" % direction, dict(label, where=k))
            if r.code == 0:
                cnt("exit0[%s]" % direction)
            else:
                cnt("nonzero[%s]" % direction)
                if injected:
                    cnt("nonzero_after_injected_fault")
            # evidence: names by class actually transferred / deleted / excluded; completion orders
            for p in transfer:
                for comp in p.split("/"):
                    for c in name_class(comp):
                        cnt("transferred_name_class[%s]" % c)
            for p in dele:
                for comp in p.split("/"):
                    for c in name_class(comp):
                        cnt("deleted_name_class[%s]" % c)
            if direction != "push":
                tr = read_traces(trace)
                ren = [os.path.relpath(e.p2, ow.dst) for pid in tr for e in tr[pid] if e.op == "rename" and e.ret == 0 and e.p2.startswith(ow.dst + "/")]
                if len(ren) > 1:
                    orders.add((idx, direction, tuple(ren)))
                    if ren != sorted(ren):
                        cnt("runs_with_out_of_order_completion")
            if transfer and (skipped or dele):
                classes = sorted({c for p in transfer | dele for comp in p.split("/") for c in name_class(comp)})
                res["distinct"].add("%s|d%d|e%d|j%d|%s" % (direction, fl["delete"], len(fl["excludes"]), fl["jobs"], ",".join(classes)[:60]))
            for sig, det in found:
                res["viol"].append((sig, det))
            if len(res["samples"]) < 1 and transfer:
                res["samples"].append(dict(label, transfer=sorted(transfer)[:5], delete=sorted(dele)[:5], skipped=skipped, exit=r.code))
            ow.destroy()
    cnt("distinct_completion_orders", len(orders))
    return res


def run_pool(worker, seedv, n, tag, extra=()):
    wroot = workdir(tag)
    per = max(1, (n + NCPU * 3 - 1) // (NCPU * 3))
    jobs = [(seedv, lo, min(n, lo + per), wroot) + tuple(extra) for lo in range(0, n, per)]
    with Pool(NCPU) as pool:
        parts = pool.map(worker, jobs)
    rmtree(wroot)
    return parts


def fold(res, parts):
    for p in parts:
        res.evaluations += p["evaluations"]
        res.distinct |= p["distinct"]
        res.inconclusive += p.get("inconclusive", 0)
        for k, v in p["counters"].items():
            if k.startswith("max_"):
                res.cmax(k, v)
            else:
                res.count(k, v)
        for s in p["samples"]:
            res.sample(s)
        for sig, det in p["viol"]:
            res.violation(sig, det)


def c04(tier):
    build("cli", "shim")
    r = Result("C04", "exploration", "one evaluation = one (source tree, destination tree, flag set) executed as local->local, push and pull (ssh stand-in = sshd's join-argv-and-run-in-login-shell contract with bash); oracle = reference plan/outcome model written from the statement (wildcard excludes, size/whole-second-mtime quick check, opt-in delete) compared field by field with snapshots (bytes, mtime_ns, ctime_ns, inode) of source, destination, $HOME and the destination's parent; half of the runs with seeded delays before mutating calls (completion-order diversity), 10% with an injected EIO/ENOSPC (judged only on 'non-zero => reported and nothing outside the plan touched'); distinct non-trivial = distinct (direction, flag set, hostile name classes) with >= 1 transfer and >= 1 skipped or deleted file")
    n = 4000 if tier == "thorough" else 500
    fold(r, run_pool(_c04_worker, seed(), n, "c04"))
    r.assumptions = ["mtimes the file system cannot represent are dropped from the case after a read-back test", "directories are ignored (the property speaks of files)", "the remote side is a local bash via the stand-in; other remote shells are out of scope"]
    if tier == "thorough":
        asan_stage(r, "C04")
    finish(r, tier)


# ------------------------------------------------------------------ C14
def unquote_dollar(s):
    """Inverse of copia's $'...' escaping (\\\\ and \\')."""
    out = []
    i = 0
    while i < len(s):
        if s[i] == "\\" and i + 1 < len(s):
            out.append(s[i + 1])
            i += 2
        else:
            out.append(s[i])
            i += 1
    return "".join(out)


def sources_read(ow, tr, first_cmd_index=0):
    """Set of source-relative paths whose CONTENT copia read in the traced run."""
    d = ow.case["direction"]
    got = set()
    if d in ("local", "push"):
        for pid in tr:
            for e in tr[pid]:
                if e.op in ("openr",) and e.ret >= 0 and e.p1 and e.p1.startswith(ow.src + "/"):
                    got.add(os.path.relpath(e.p1, ow.src))
    else:
        for cmd in read_standin_log(ow.sshlog)[first_cmd_index:]:
            if cmd.startswith("cat $'") and cmd.endswith("'"):
                path = norm_slashes(unquote_dollar(cmd[len("cat $'"):-1]))
                if path.startswith(ow.src + "/"):
                    got.add(os.path.relpath(path, ow.src))
    return got


def _c14_worker(args):
    seedv, lo, hi, wroot = args
    res = {"evaluations": 0, "distinct": set(), "viol": [], "counters": {}, "samples": [], "inconclusive": 0}

    def cnt(k, n=1):
        res["counters"][k] = res["counters"].get(k, 0) + n

    for idx in range(lo, hi):
        for direction in DIRECTIONS:
            rng = SplitMix.derive(seedv, "c14", idx)
            case = gen_case(rng, direction, {"clash": False})
            if idx % 50 == 9:
                case = gen_many_case(rng, direction, stale_heavy=True if idx % 100 == 9 else None)
                cnt("cases_with_hundreds_of_files")
            ow = OneWay(os.path.join(wroot, "w%d" % lo), case)
            fl = case["flags"]
            label = {"case": idx, "direction": direction, "flags": fl, "dstname": case["dstname"]}
            srcm, src0 = ow.meta("src")
            dstm, dst0 = ow.meta("dst")
            transfer, skipped, dele = model_plan(srcm, dstm, fl["excludes"], fl["delete"])
            trace = os.path.join(ow.root, "tr")
            r1 = run_case(ow, trace=trace)
            if r1.timed_out:
                res["inconclusive"] += 1
                ow.destroy()
                continue
            if r1.code != 0:
                cnt("first_run_failed_skipped")
                ow.destroy()
                continue
            # cost proportional to change: sources read in run 1 == the model's transfer set
            tr = read_traces(trace)
            got = sources_read(ow, tr)
            if got != transfer:
                res["viol"].append(("C14|%s|run1-read-set-differs-from-transfer-set" % direction, dict(label, read_not_planned=sorted(got - transfer)[:5], planned_not_read=sorted(transfer - got)[:5])))
            clear_standin_log(ow.sshlog)
            ncmds = 0
            clear_traces(trace)
            _, s1 = ow.meta("src")
            dm1, d1 = ow.meta("dst")
            t2, sk2, de2 = model_plan({p: (x["size"], x["mtime_ns"] // 10 ** 9) for p, x in s1.items()}, dm1, fl["excludes"], fl["delete"])
            r2 = run_case(ow, trace=trace)
            if r2.timed_out:
                res["inconclusive"] += 1
                ow.destroy()
                continue
            _, s2 = ow.meta("src")
            _, d2 = ow.meta("dst")
            res["evaluations"] += 1
            cnt("double_runs[%s]" % direction)
            quiet = ("Already up to date" in r2.stdout) or ("No files found" in r2.stderr)
            m = PLAN_RE.search(r2.stderr)
            if r2.code != 0:
                res["viol"].append(("C14|%s|second-run-failed" % direction, dict(label, run=r2.brief())))
            if m and (int(m.group(1)) != 0 or int(m.group(3)) != 0):
                res["viol"].append(("C14|%s|second-run-plans-work" % direction, dict(label, line=m.group(0), model_transfer=sorted(t2)[:5], run1_transfer=sorted(transfer)[:5])))
            if not m and not quiet:
                res["viol"].append(("C14|%s|second-run-no-plan-line" % direction, dict(label, run=r2.brief())))
            for nm, a, b in (("source", s1, s2), ("destination", d1, d2)):
                if set(a) != set(b) or any(not same_rec(a[p], b[p]) for p in a):
                    ch = sorted(p for p in set(a) | set(b) if p not in a or p not in b or not same_rec(a[p], b[p]))[:5]
                    res["viol"].append(("C14|%s|second-run-changed-%s" % (direction, nm), dict(label, paths=ch)))
            tr2 = read_traces(trace)
            got2 = sources_read(ow, tr2, ncmds)
            if got2:
                res["viol"].append(("C14|%s|second-run-read-source-files" % direction, dict(label, read=sorted(got2)[:5])))
            if direction != "push":
                muts = [e for pid in tr2 for e in tr2[pid] if e.op in MUTATING and e.p1 and (e.p1.startswith(ow.dst + "/") or e.p1.startswith(ow.src + "/"))]
                if muts:
                    res["viol"].append(("C14|%s|second-run-mutating-calls" % direction, dict(label, calls=[repr(e) for e in muts[:4]])))
            resent = [p for p in transfer if p in s1]
            if resent and skipped + len(resent) > 0:
                mclass = sorted({("sub-second" if srcm_ns % 10 ** 9 else "integral") + ("-far" if srcm_ns // 10 ** 9 >= 2 ** 31 else "") + ("-zero" if srcm_ns == 0 else "") for srcm_ns in (src0[p]["mtime_ns"] for p in resent)})
                nclass = sorted({c for p in resent for comp in p.split("/") for c in name_class(comp)})
                res["distinct"].add("%s|%s|%s" % (direction, ",".join(mclass), ",".join(nclass)[:50]))
                cnt("files_skipped_in_run2_that_run1_transferred", len(resent))
            if len(res["samples"]) < 1 and transfer:
                res["samples"].append(dict(label, run1_transfer=sorted(transfer)[:4], run2_plan=m.group(0) if m else r2.stdout[-80:]))
            cnt("mtimes_dropped_as_unrepresentable", ow.fs_dropped)
            ow.destroy()
    return res


def c14(tier):
    build("cli", "shim")
    r = Result("C14", "exploration", "one evaluation = one (trees, flags, direction) double run: run 1 must read exactly the model's transfer set (opens of source files in copia's libc trace for local/push, remote `cat` commands for pull); the immediately repeated command must plan 0 transfers and 0 deletes, leave (bytes, size, mtime_ns, ctime_ns, inode) of every file on both sides unchanged, read no source file and (local/pull) make no mutating call under either root; mtime sweep 0, 1, x.000000001, x.5, x.999999999, 2^31-1, 2^31, 2100, 9999999999; distinct non-trivial = distinct (direction, mtime classes, name classes) with >= 1 file transferred in run 1 and skipped in run 2")
    n = 3000 if tier == "thorough" else 400
    fold(r, run_pool(_c14_worker, seed(), n, "c14"))
    r.assumptions = ["cases whose first run fails are skipped (C04 judges them)", "mtimes the file system cannot represent are dropped from the case after a read-back test"]
    if tier == "thorough":
        asan_stage(r, "C14")
    finish(r, tier)


# ------------------------------------------------------------------ C15 (sync part)
def path_key(p):
    return p.split("/")


def render_dry(transfer, dele):
    out = []
    for p in sorted(transfer, key=path_key):
        out.append("send   %s\n" % p)
    for p in sorted(dele, key=path_key):
        out.append("delete %s\n" % p)
    out.append("(dry run) nothing was modified\n")
    return "".join(out)


def _c15_worker(args):
    seedv, lo, hi, wroot = args
    res = {"evaluations": 0, "distinct": set(), "viol": [], "counters": {}, "samples": [], "inconclusive": 0}

    def cnt(k, n=1):
        res["counters"][k] = res["counters"].get(k, 0) + n

    for idx in range(lo, hi):
        for direction in DIRECTIONS:
            rng = SplitMix.derive(seedv, "c15", idx)
            meta_names = rng.chance(1, 2)
            case = gen_case(rng, direction, {"leftover": False, "alphabet": ["a", "b", "*", "?", ".", "-", "é", "日"] if meta_names else None, "max_files": 10})
            fl = case["flags"]
            # exclude-heavy: make sure there is at least one pattern in 3 of 4 cases
            if not fl["excludes"] and rng.chance(3, 4):
                names = sorted(set(case["src"]) | set(case["dst"]))
                b = rng.pick(names).split("/")[-1]
                fl["excludes"] = [rng.pick([b, "*" + b[-1:], b[:1] + "*", "?" * len(b), "*.tmp", "*"])]
            if idx % 4 == 3:
                # extension-like family: `*.ext` against names that ARE the extension, multi-dot suffixes, ...
                names = rng.shuffle([".bak", "x.bak", "d/.bak", "a.tar.gz", ".tar.gz", "b.gz", "-.bak", "s*.bak", "d/e.d.ts", "access.log", "process.log", "jobs.log", "a..tmp", "é.log", "日.bak", "aab", "..a"])[: rng.range(3, 8)]
                case["src"], case["dst"] = {}, {}
                for nm in names:
                    data = rng.bytes(rng.range(0, 40))
                    st = rng.pick(["src", "src", "both-diff", "dst-only", "dst-only"])
                    if st in ("src", "both-diff"):
                        case["src"][nm] = (data, (1_700_000_000, 0))
                    if st == "both-diff":
                        case["dst"][nm] = (data + b"+", (1_600_000_000, 0))
                    if st == "dst-only":
                        case["dst"][nm] = (data, (1_600_000_000, 0))
                if not case["src"]:
                    case["src"]["keep"] = (b"k", (1_700_000_000, 0))
                fl["excludes"] = rng.shuffle(["*.bak", "*.tar.gz", "*.gz", ".bak", "?.bak", "*.*", "*s.log", "*.d.ts", "?.log", "*.tmp", "*ab", "*.a", "d/*.bak"])[: rng.range(1, 3)]
                fl["delete"] = rng.chance(2, 3)
                case["dst_exists"] = True
            ow = OneWay(os.path.join(wroot, "w%d" % lo), case)
            label = {"case": idx, "direction": direction, "flags": fl}
            srcm, src0 = ow.meta("src")
            dstm, dst0 = ow.meta("dst")
            transfer, skipped, dele = model_plan(srcm, dstm, fl["excludes"], fl["delete"])
            trace = os.path.join(ow.root, "tr")
            # ---- dry run
            arch0 = snapshot(os.path.join(ow.home))
            rd = run_case(ow, dry=True, trace=trace)
            if rd.timed_out:
                res["inconclusive"] += 1
                ow.destroy()
                continue
            _, src1 = ow.meta("src")
            _, dst1 = ow.meta("dst")
            res["evaluations"] += 1
            cnt("dry_runs[%s]" % direction)
            for nm, a, b in (("source", src0, src1), ("destination", dst0, dst1)):
                if set(a) != set(b) or any(not same_rec(a[p], b[p]) for p in a):
                    res["viol"].append(("C15|%s|dry-run-changed-%s" % (direction, nm), dict(label)))
            trd = read_traces(trace)
            muts = [e for pid in trd for e in trd[pid] if e.op in MUTATING and e.p1 and (e.p1.startswith(ow.parent + "/"))]
            if muts:
                res["viol"].append(("C15|%s|dry-run-mutating-calls" % direction, dict(label, calls=[repr(e) for e in muts[:4]])))
            want = render_dry(transfer, dele)
            no_files = (not srcm) and not fl["delete"]
            if rd.code != 0:
                res["viol"].append(("C15|%s|dry-run-failed" % direction, dict(label, run=rd.brief())))
            elif not no_files and rd.stdout != want:
                res["viol"].append(("C15|%s|dry-run-output-differs-from-model" % direction, dict(label, got=rd.stdout[-400:], want=want[-400:])))
            clear_traces(trace)
            # ---- the real run from the same state
            rr = run_case(ow, trace=trace)
            if rr.timed_out:
                res["inconclusive"] += 1
                ow.destroy()
                continue
            _, src2 = ow.meta("src")
            _, dst2 = ow.meta("dst")
            f0 = {p: x for p, x in dst0.items() if x.get("kind") == "f"}
            f2 = {p: x for p, x in dst2.items() if x.get("kind") == "f"}
            # what the real run performed == what the dry run printed
            if rr.code != 0 and rd.code == 0 and ow.case.get("empty_source") and not any(st == "clash" for st in ow.case["states"].values()):
                # nothing but deletes of ordinary files was announced, from this very state: a real run that refuses is
                # not performing the actions the dry run printed
                res["viol"].append(("C15|%s|real-run-refuses-what-the-dry-run-announced" % direction, dict(label, announced_deletes=len(dele), run=rr.brief())))
            if rr.code == 0:
                performed_send = {p for p in f2 if (p not in f0 or not same_rec(f0[p], f2[p])) and not is_staging(p)}
                performed_del = {p for p in f0 if p not in f2}
                if performed_send != transfer or performed_del != dele:
                    res["viol"].append(("C15|%s|real-run-differs-from-dry-run" % direction, dict(label, sent_not_announced=sorted(performed_send - transfer)[:4], announced_not_sent=sorted(transfer - performed_send)[:4], deleted_not_announced=sorted(performed_del - dele)[:4], announced_not_deleted=sorted(dele - performed_del)[:4])))
                if direction != "push":
                    trr = read_traces(trace)
                    ren = {os.path.relpath(e.p2, ow.dst) for pid in trr for e in trr[pid] if e.op == "rename" and e.ret == 0 and e.p2.startswith(ow.dst + "/")}
                    unl = {os.path.relpath(e.p1, ow.dst) for pid in trr for e in trr[pid] if e.op == "unlink" and e.ret == 0 and e.p1.startswith(ow.dst + "/")}
                    if ren != transfer or unl != dele:
                        res["viol"].append(("C15|%s|trace-renames-unlinks-differ-from-announced" % direction, dict(label, renamed=sorted(ren ^ transfer)[:4], unlinked=sorted(unl ^ dele)[:4])))
            # excludes protect; deletes are opt-in (whatever the exit status)
            pats = fl["excludes"]
            for p, x in f0.items():
                if excluded(p, pats):
                    if p not in f2:
                        res["viol"].append(("C15|%s|excluded-destination-file-deleted" % direction, dict(label, path=p)))
                    elif not same_rec(x, f2[p]):
                        res["viol"].append(("C15|%s|excluded-destination-file-modified" % direction, dict(label, path=p)))
                    cnt("excluded_destination_files_checked")
            for p in src0:
                if excluded(p, pats) and p not in f0 and p in f2:
                    res["viol"].append(("C15|%s|excluded-source-file-transferred" % direction, dict(label, path=p)))
            if not fl["delete"]:
                gone = sorted(p for p in f0 if p not in f2)
                if gone:
                    res["viol"].append(("C15|%s|removed-without-delete-flag" % direction, dict(label, paths=gone[:4])))
            if direction != "push" and pats:
                trr = read_traces(trace)
                for pid in trr:
                    for e in trr[pid]:
                        tgt = e.p2 if e.op == "rename" else e.p1
                        if e.op in ("rename", "unlink") and tgt and tgt.startswith(ow.dst + "/") and excluded(os.path.relpath(tgt, ow.dst), pats):
                            res["viol"].append(("C15|%s|excluded-path-target-of-%s" % (direction, e.op), dict(label, path=os.path.relpath(tgt, ow.dst))))
            has_excl_dst = any(excluded(p, pats) for p in f0)
            if has_excl_dst or transfer or dele:
                res["distinct"].add("%s|x%d|d%d|t%d|del%d|meta%d" % (direction, has_excl_dst, fl["delete"], min(3, len(transfer)), min(3, len(dele)), meta_names))
            if meta_names:
                cnt("cases_with_metacharacter_names")
            if len(res["samples"]) < 1 and pats:
                res["samples"].append(dict(label, dry_stdout=rd.stdout[:300], names=sorted(set(case["src"]) | set(case["dst"]))[:8]))
            ow.destroy()
    return res


def c15(tier):
    import bisync
    build("cli", "shim", "vh")
    r = Result("C15", "exploration", "sync part: one evaluation = one (trees, exclude list, flags, direction): `--dry-run` must leave source, destination and $HOME byte/mtime/ctime/inode-identical, make no mutating libc call, and print exactly the model's `send`/`delete` lines (whole-text comparison); the real run from the same state must perform exactly those sends and deletes (snapshots; rename/unlink targets in the trace for local/pull); excluded destination files are never modified or deleted, excluded source files never created, nothing is removed without --delete; half of the cases use file names over {a,b,*,?,.,-,é,日}; bisync part: dry run leaves trees and archive bytes identical and its action lines equal the real run's effects; distinct non-trivial = cases with an excluded destination file or a non-empty plan, by (direction, flags, plan size class)")
    th = tier == "thorough"
    fold(r, run_pool(_c15_worker, seed(), 3000 if th else 400, "c15"))
    bisync.fold(r, bisync.run_pool(bisync._c15b_worker, seed(), 2500 if th else 400, "c15b"))
    r.assumptions = ["the reference excluded() is the wildcard definition from the statement with the documented normalisation (trailing '/' trimmed, empty pattern ignored)"]
    if tier == "thorough":
        asan_stage(r, "C15")
    finish(r, tier)


# ------------------------------------------------------------------ C09
def c09_scenarios(rng=None):
    old = (1_500_000_000, 0)
    new = (1_700_000_000, 0)
    k300 = bytes(range(256)) * 1200       # 300 KiB
    k700 = (b"copia-chunk-%06d\n" * 1)     # placeholder, built below
    k700 = b"".join(b"line %07d of the seven hundred KiB file\n" % i for i in range(17500))[:716800]
    S = {}
    S["one-small-new"] = dict(src={"a": (b"x", new)}, dst={}, delete=False)
    S["empty-file-over-old"] = dict(src={"e": (b"", new)}, dst={"e": (b"old-content", old)}, delete=False)
    S["300K-over-older"] = dict(src={"big": (k300, new)}, dst={"big": (k300[::-1], old), "bystander": (b"keep me", old)}, delete=False)
    S["700K-new-nested"] = dict(src={"d/e/big7": (k700, new)}, dst={"bystander": (b"keep me", old)}, delete=False)
    S["four-files-delete"] = dict(src={"a": (b"A" * 5000, new), "b/c": (k300, new), "z": (b"", new), "same": (b"same", old)}, dst={"a": (b"old-a", old), "stale": (b"stale", old), "same": (b"same", old), "b/c": (b"old-c", old)}, delete=True)
    # torn-list detector (push --delete): the delete list is far longer than a pipe buffer page, and every
    # proper prefix of a stale name (beyond the directory) names an in-sync file, so a list cut anywhere
    # inside a name makes the orphaned remote `rm` hit a file outside the plan
    for tag, plen in (("a", 130), ("b", 97)):
        keep = {"L/" + "x" * n: (b"k%d" % n, old) for n in range(1, plen + 1)}
        stale = {"L/" + "x" * plen + c: (b"s", old) for c in "abcdefghijklmnopqrstuvwxyz0123456789ABCDEFGHIJKLMNOPQRSTUVWXYZ"}
        S["long-delete-list-prefix-names-" + tag] = dict(src=dict(keep, **{"new": (b"n", new)}), dst=dict(keep, **stale), delete=True)
    # write-protected destination files: replaced by rename and deleted like any other, never unlinked first
    S["readonly-destination-files"] = dict(src={"locked.db": (k300[:70000], new), "d/ro": (b"new-ro", new), "same": (b"same", old)}, dst={"locked.db": (b"old locked content", old), "d/ro": (b"old-ro", old), "same": (b"same", old), "stale-ro": (b"s", old)}, delete=True, readonly=[("dst", "locked.db"), ("dst", "d/ro"), ("dst", "same"), ("dst", "stale-ro")])
    # after the crash the user edits the source (same sizes, new bytes, newer mtimes) and only then runs the
    # command again: what the killed run left behind must not leak into the result
    S["source-edited-before-rerun"] = dict(src={"big": (k300, new), "sub/index.bin": (k700[:200000], new), "tiny": (b"t", new)}, dst={"big": (k300[::-1], old), "bystander": (b"keep me", old)}, delete=False, edit_before_rerun=True)
    # the same two shapes with TMPDIR on another file system (a run that staged there would have to copy across)
    S["300K-over-older-tmpdir-on-another-fs"] = dict(S["300K-over-older"], envv="tmpdir-other-fs")
    S["four-files-delete-tmpdir-on-another-fs"] = dict(S["four-files-delete"], envv="tmpdir-other-fs")
    # the same two shapes again, ended by SIGTERM / SIGINT instead of SIGKILL
    S["300K-over-older-sigterm"] = dict(S["300K-over-older"])
    S["700K-new-nested-sigint"] = dict(S["700K-new-nested"])
    k3m = (k700 * 5)[:3 * 1024 * 1024 + 5000]
    # a file that only GREW at its end (a log, a journal): the destination holds a 1.25 MiB strict prefix of the 3 MiB
    # source, and a second name for that old inode which is nobody's to touch; and the reverse, a file that shrank
    S["grown-file-prefix-1.25M-of-3M-with-a-hard-link"] = dict(src={"logs/journal.log": (k3m, new), "k": (b"k", new)}, dst={"logs/journal.log": (k3m[:1310720], old)}, delete=False, dst_hardlinks=[("logs/journal.log", "logs/journal.log.0")])
    S["shrunk-file-3M-to-its-first-1.25M"] = dict(src={"logs/journal.log": (k3m[:1310720], new)}, dst={"logs/journal.log": (k3m, old)}, delete=False)
    S["3M-over-older"] = dict(src={"big3": (k3m, new), "k": (b"k", new)}, dst={"big3": (k3m[:4096][::-1], old)}, delete=False)
    S["700K-over-older-delete"] = dict(src={"big7": (k700, new), "k": (b"k", new)}, dst={"big7": (k700[:1000], old), "stale/x": (b"s", old)}, delete=True)
    return S


def writes_after_publication(tr, ow):
    out = []
    for pid in tr:
        published = {}
        for i, e in enumerate(tr[pid]):
            if e.op == "rename" and e.ret == 0 and e.p1 and e.p1.endswith(STAGING) and e.p2 and e.p2.startswith(ow.dst + "/"):
                published[e.p1] = (i, e.p2)
            elif e.op in ("openw",) and e.p1 in published:
                del published[e.p1]  # the staging name is being used afresh
            elif e.op in ("write", "pwrite", "pwrite64", "writev", "copy_file_range", "sendfile", "ftruncate") and e.p1 in published and e.ret >= 0:
                out.append(("data-written-after-the-file-was-renamed-into-place", {"path": os.path.relpath(published[e.p1][1], ow.dst), "call": e.op, "bytes": e.ret, "calls_after_the_rename": i - published[e.p1][0]}))
                del published[e.p1]
    return out


def _c09_worker(args):
    seedv, lo, hi, wroot, jobs = args
    res = {"evaluations": 0, "distinct": set(), "viol": [], "counters": {}, "samples": [], "inconclusive": 0}

    def cnt(k, n=1):
        res["counters"][k] = res["counters"].get(k, 0) + n

    scen = c09_scenarios()
    for idx in range(lo, hi):
        name, direction = jobs[idx]
        if name in scen:
            sc = scen[name]
            case = {"src": sc["src"], "dst": sc["dst"], "states": {}, "flags": {"delete": sc["delete"], "excludes": [], "jobs": 2, "verbose": False}, "direction": direction, "dstname": "dst", "srcname": "src", "dst_exists": True, "readonly": sc.get("readonly", []), "envv": sc.get("envv"), "dst_hardlinks": sc.get("dst_hardlinks", [])}
        else:
            rng = SplitMix.derive(seedv, "c09", name)
            case = gen_case(rng, direction, {"clash": False, "max_files": 4, "hostile_roots": False, "leftover": False})
            case["flags"]["jobs"] = rng.pick([1, 2, 4])
        root = os.path.join(wroot, "s%d" % idx)
        ow = OneWay(root, case)
        fl = case["flags"]
        srcm, src0 = ow.meta("src")
        dstm, dst0 = ow.meta("dst")
        transfer, skipped, dele = model_plan(srcm, dstm, fl["excludes"], fl["delete"])
        save = root + ".save"
        rmtree(save)
        copy_tree(ow.parent, save)
        # copytree does not keep mtimes of files reliably -> copy2 is the default and keeps mtime_ns

        def restore():
            rmtree(ow.parent)
            copy_tree(save, ow.parent)
            rmtree(os.path.join(ow.home, ".copia"))

        trace = os.path.join(root, "tr")
        env = shim_env(ow.env(), log=trace, kill_class="write")
        rref = run(ow.argv(), env, cwd=ow.home, timeout=120)
        if rref.code != 0:
            cnt("scenarios_skipped_reference_failed")
            ow.destroy()
            rmtree(save)
            continue
        ref = content_map(snapshot(ow.dst))
        old = content_map(dst0)
        srcids = content_map(src0)
        edit = name in scen and scen[name].get("edit_before_rerun")
        # trace-order monitor on the uninterrupted run (local, pull): once a staging file has been renamed into place,
        # no data call may still be issued on the descriptor that was opened under the staging name - a kill between the
        # rename and that call leaves an incomplete file at the destination path, whether or not a sweep lands there
        if direction != "push":
            found_wap = writes_after_publication(read_traces(trace), ow)
            # ... and on three more uninterrupted runs in which the shim sleeps a random 0-3 ms before every mutating
            # call: two calls issued by different threads of the process then come in either order
            for rep_i in range(3):
                if found_wap:
                    break
                restore()
                clear_traces(trace)
                rdel = run(ow.argv(), shim_env(ow.env(), log=trace, delay="%d:3000" % (idx * 7 + rep_i + 1)), cwd=ow.home, timeout=180)
                cnt("uninterrupted_runs_under_delay_injection")
                if rdel.timed_out or rdel.code != 0:
                    continue
                found_wap = writes_after_publication(read_traces(trace), ow)
                if not found_wap and content_map(snapshot(ow.dst)) != ref:
                    res["viol"].append(("C09|%s|uninterrupted-run-under-delays-differs-from-reference" % direction, {"scenario": name}))
            for sig, det in found_wap:
                res["viol"].append(("C09|%s|%s" % (direction, sig), dict(det, scenario=name)))

        def edit_source():
            for i, pth in enumerate(sorted(transfer)):
                full = os.path.join(ow.src, pth)
                data = bytes(b ^ 0x5A for b in open(full, "rb").read())
                st = os.stat(full)
                # same length / a quarter of the length / a little longer
                data = data if i % 3 == 0 else (data[: len(data) // 4] if i % 3 == 1 else data + b"grown")
                write_file(full, data, (st.st_mtime_ns // 1_000_000_000 + 100, 0))

        if edit:
            restore()
            edit_source()
            r2 = run(ow.argv(), ow.env(), cwd=ow.home, timeout=120)
            if r2.code != 0:
                cnt("scenarios_skipped_reference_failed")
                ow.destroy()
                rmtree(save)
                continue
            ref = content_map(snapshot(ow.dst))
        cnt("scenarios[%s]" % direction)
        k = 0
        states = set()
        inside = 0
        while True:
            k += 1
            if k > 1500:
                res["inconclusive"] += 1
                break
            restore()
            clear_traces(trace)
            # "killed" is SIGKILL in most sweeps; scenarios tagged -sigterm / -sigint get the signal `kill` and Ctrl-C
            # send, raised at the same instants: a process that catches it and winds down owes the same guarantee
            ksig = 15 if name.endswith("-sigterm") else (2 if name.endswith("-sigint") else None)
            env = shim_env(ow.env(), log=trace, kill_at=k, kill_class="write", kill_sig=ksig)
            p = subprocess.Popen([COPIA] + ow.argv(), env=env, cwd=ow.home, stdin=subprocess.DEVNULL, stdout=subprocess.PIPE, stderr=subprocess.PIPE, start_new_session=True)
            try:
                out, err = p.communicate(timeout=120)
            except subprocess.TimeoutExpired:
                os.killpg(p.pid, signal.SIGKILL)
                p.communicate()
                res["inconclusive"] += 1
                continue
            # orphaned remote shells are left to run to completion
            if not wait_group_gone(p.pid, 30):
                res["inconclusive"] += 1
                try:
                    os.killpg(p.pid, signal.SIGKILL)
                except OSError:
                    pass
                continue
            tr = read_traces(trace)
            evs = [e for pid in tr for e in tr[pid]]
            kills = [e for e in evs if e.op == "KILL"]
            if not kills:
                break
            res["evaluations"] += 1
            kev = kills[0]
            cnt("kills[%s|%s]" % (direction, kev.extra))
            label = {"scenario": name, "direction": direction, "k": k, "killed_before": "%s %s" % (kev.extra, kev.p1)}
            now = content_map(snapshot(ow.dst))
            for pth in set(now) | set(old):
                cur = now.get(pth)
                if pth in transfer:
                    allowed = {old.get(pth), srcids.get(pth)}
                elif pth in dele:
                    allowed = {old.get(pth), None}
                else:
                    allowed = {old.get(pth)}
                if cur not in allowed:
                    what = "planned-path-holds-partial-or-foreign-bytes" if pth in transfer else "out-of-plan-path-changed"
                    sz = None
                    try:
                        sz = os.path.getsize(os.path.join(ow.dst, pth))
                    except OSError:
                        pass
                    res["viol"].append(("C09|%s|%s" % (direction, what), dict(label, path=pth, size_now=sz, full_size=srcm.get(pth, (None,))[0])))
            _, srcnow = ow.meta("src")
            if content_map(srcnow) != srcids:
                res["viol"].append(("C09|%s|source-changed" % direction, dict(label)))
            # inside a data stream? the kill came before a data call that was not the first for this file
            data_ops = ("pipew", "write", "copy_file_range", "pwrite", "writev")
            if kev.extra in ("write", "copy_file_range", "pwrite64", "writev", "pwrite") and any(e.op in data_ops for e in evs):
                inside += 1
            states.add(tuple(sorted(content_map(snapshot(ow.dst), staging=True).items())))
            # re-run the same command: must complete and equal the uninterrupted result
            if edit:
                edit_source()
                cnt("reruns_after_source_edit")
            ok = False
            for attempt in range(1):  # the statement allows no retry: "running the same command again completes"
                rr = run(ow.argv(), ow.env(), cwd=ow.home, timeout=120)
                cnt("recovery_runs")
                if rr.code == 0:
                    ok = True
                    if attempt:
                        cnt("reruns_that_needed_a_second_attempt[%s]" % direction)
                    break
            fin = content_map(snapshot(ow.dst))
            if not ok:
                res["viol"].append(("C09|%s|rerun-failed" % direction, dict(label, run=rr.brief())))
            elif fin != ref:
                res["viol"].append(("C09|%s|rerun-differs-from-uninterrupted-run" % direction, dict(label, diff=sorted(set(fin.items()) ^ set(ref.items()))[:4])))
        cnt("kill_points[%s]" % direction, k - 1)
        cnt("kills_inside_a_data_stream[%s]" % direction, inside)
        for stt in states:
            res["distinct"].add("%s|%s|%x" % (name, direction, hash(stt) & 0xFFFFFFFF))
        res["samples"].append({"scenario": name, "direction": direction, "kill_points": k - 1, "post_crash_states": len(states), "transfer": [t[:40] for t in sorted(transfer)[:4]], "delete": [t[:40] for t in sorted(dele)[:4]], "n_transfer": len(transfer), "n_delete": len(dele)})
        ow.destroy()
        rmtree(save)
    return res


def c09(tier):
    build("cli", "shim")
    r = Result("C09", "fault_enumeration", "one evaluation = one (scenario, direction, k): `sync -r` killed by the shim immediately before its k-th file-system or pipe write call, for EVERY k until a run is no longer killed; for push the orphaned remote shell is left to finish; then every destination path must hold its complete old bytes or the complete source bytes (absent only if it was absent / planned for deletion), files outside the plan unchanged, source unchanged; re-running the command ONCE must succeed and equal the uninterrupted result; distinct non-trivial = distinct post-crash destination states")
    th = tier == "thorough"
    names = list(c09_scenarios())
    if th:
        names += ["gen%d" % i for i in range(110)]
    else:
        names += ["gen%d" % (seed() * 5 + i) for i in range(6)]
    jobs = [(n, d) for n in names for d in DIRECTIONS]
    wroot = workdir("c09")
    args = [(seed(), i, i + 1, wroot, jobs) for i in range(len(jobs))]
    with Pool(NCPU) as pool:
        parts = pool.map(_c09_worker, args, chunksize=1)
    rmtree(wroot)
    fold(r, parts)
    r.exhaustive = True
    r.assumptions = ["exhaustive refers to k per (scenario, direction)", "kills land before libc calls of the copia process only; a crash of the remote side of an SSH session is not produced", "the remote side is bash + coreutils via the stand-in"]
    if tier == "thorough":
        asan_stage(r, "C09")
    finish(r, tier)
