import bisync
import hub
import oneway
import libchecks

CHECKS = {
    "C02": bisync.c02,
    "C06": bisync.c06,
    "C07": bisync.c07,
    "C08": bisync.c08,
    "C01": libchecks.c01,
    "C03": hub.c03,
    "C04": oneway.c04,
    "C05": libchecks.c05,
    "C09": oneway.c09,
    "C10": hub.c10,
    "C11": hub.c11,
    "C12": hub.c12,
    "C13": hub.c13,
    "C14": oneway.c14,
    "C15": oneway.c15,
    "C16": libchecks.c16,
    "C17": libchecks.c17,
    "C18": libchecks.c18,
    "C19": libchecks.c19,
    "C20": libchecks.c20,
}
