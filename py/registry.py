import libchecks

CHECKS = {
    "C01": libchecks.c01,
    "C05": libchecks.c05,
    "C16": libchecks.c16,
    "C17": libchecks.c17,
    "C18": libchecks.c18,
    "C19": libchecks.c19,
    "C20": libchecks.c20,
}
