"""Shared plumbing for the copia runtime monitors: seeds, builds, verdicts,
known findings, evidence files, replay files."""
import json
import os
import shutil
import subprocess
import sys
import time

V = os.path.dirname(os.path.dirname(os.path.abspath(__file__)))  # /verif, or a snapshot of it
REPO = os.environ.get("VERIF_REPO", "/repo")
TARGET = os.environ.get("VERIF_TARGET", V + "/target")
import hashlib as _hl

# one target sub-directory per source path (see bin/build.sh)
SFX = "" if REPO == "/repo" else "-" + _hl.md5(REPO.encode()).hexdigest()[:8]
COPIA = TARGET + "/cli%s/release/copia" % SFX
COPIA_DEV = TARGET + "/cli%s/debug/copia" % SFX
COPIA_VG = TARGET + "/cli-vg%s/release/copia" % SFX
COPIA_ASAN = TARGET + "/cli-asan%s/x86_64-unknown-linux-gnu/release/copia" % SFX
# variant stages: the same process-level workload against another build of the same sources
VARIANT = os.environ.get("VERIF_VARIANT", "")
if VARIANT == "asan":
    COPIA = COPIA_ASAN
if VARIANT == "cov":
    COPIA = TARGET + "/cli-cov%s/release/copia" % SFX
VH = TARGET + "/vh%s/release/vh" % SFX
VH_DEBUG = TARGET + "/vh%s/verif-debug/vh" % SFX
SHIM = TARGET + "/libfsmon.so"
SHIM_ALLOC = TARGET + "/libfsmon_alloc.so"
WORK = os.environ.get("VERIF_WORK", V + "/.work")
NCPU = min(16, os.cpu_count() or 4)


def seed():
    try:
        return int(os.environ.get("VERIF_SEED", "1"))
    except ValueError:
        return 1


class SplitMix:
    """Deterministic PRNG tree: SplitMix64."""

    def __init__(self, s):
        self.s = (s ^ 0x9E3779B97F4A7C15) & 0xFFFFFFFFFFFFFFFF
        self.next()

    @classmethod
    def derive(cls, *parts):
        x = 0x243F6A8885A308D3
        for p in parts:
            if isinstance(p, str):
                for ch in p.encode():
                    x = ((x ^ ch) * 0x100000001B3) & 0xFFFFFFFFFFFFFFFF
            else:
                x = ((x ^ (p & 0xFFFFFFFFFFFFFFFF)) * 0xD6E8FEB86659FD93 + 0x9E3779B97F4A7C15) & 0xFFFFFFFFFFFFFFFF
                x ^= x >> 32
        return cls(x)

    def next(self):
        self.s = (self.s + 0x9E3779B97F4A7C15) & 0xFFFFFFFFFFFFFFFF
        z = self.s
        z = ((z ^ (z >> 30)) * 0xBF58476D1CE4E5B9) & 0xFFFFFFFFFFFFFFFF
        z = ((z ^ (z >> 27)) * 0x94D049BB133111EB) & 0xFFFFFFFFFFFFFFFF
        return z ^ (z >> 31)

    def below(self, n):
        return self.next() % n if n > 0 else 0

    def range(self, lo, hi):
        return lo if hi <= lo else lo + self.below(hi - lo + 1)

    def chance(self, num, den):
        return self.below(den) < num

    def pick(self, xs):
        return xs[self.below(len(xs))]

    def bytes(self, n):
        out = bytearray()
        while len(out) < n:
            out += self.next().to_bytes(8, "little")
        return bytes(out[:n])

    def shuffle(self, xs):
        xs = list(xs)
        for i in range(len(xs) - 1, 0, -1):
            j = self.below(i + 1)
            xs[i], xs[j] = xs[j], xs[i]
        return xs


def build(*what):
    """(Re)build from the current working tree of $VERIF_REPO. Exit 2 on failure."""
    env = dict(os.environ, VERIF_REPO=REPO, VERIF_TARGET=TARGET, CARGO_NET_OFFLINE="true")
    if VARIANT == "asan":
        what = tuple("cli-asan" if w == "cli" else w for w in what)
    if VARIANT == "cov":
        what = tuple("cli-cov" if w == "cli" else w for w in what)
    r = subprocess.run([V + "/bin/build.sh", *what], env=env, stdout=subprocess.PIPE, stderr=subprocess.PIPE, text=True)
    if r.returncode != 0:
        sys.stderr.write(r.stdout + r.stderr)
        print("HARNESS-ERROR: build failed for %s" % (what,))
        sys.exit(2)


def workdir(tag):
    d = os.path.join(WORK, "%s.%d" % (tag, os.getpid()))
    shutil.rmtree(d, ignore_errors=True)
    os.makedirs(d)
    return d


def run_vh(sub, tier, stage=None, profile="release", cases=None, extra=(), sd=None, timeout=7200, env_extra=None, alloc_abort=None):
    exe = VH if profile == "release" else VH_DEBUG
    wd = workdir("vh-" + sub)
    cmd = [exe, sub, "--seed", str(seed() if sd is None else sd), "--tier", tier, "--work", wd, "--profile", profile]
    if stage:
        cmd += ["--stage", stage]
    if cases is not None:
        cmd += ["--cases", str(cases)]
    cmd += list(extra)
    env = dict(os.environ, COPIA_BIN=COPIA, RUST_BACKTRACE="0", VH_SHIM=SHIM)
    if VARIANT == "asan":
        env["VH_NO_RLIMIT"] = "1"
        if os.environ.get("VERIF_ASAN_LOG"):
            env["ASAN_OPTIONS"] = "log_path=%s:detect_leaks=0:abort_on_error=1:allocator_may_return_null=1:max_allocation_size_mb=4096" % os.environ["VERIF_ASAN_LOG"]
    if env_extra:
        env.update(env_extra)
    try:
        r = subprocess.run(cmd, stdout=subprocess.PIPE, stderr=subprocess.PIPE, env=env, timeout=timeout)
    finally:
        shutil.rmtree(wd, ignore_errors=True)
    err = r.stderr.decode("utf-8", "replace")
    if alloc_abort and r.returncode in (-6, 134) and "memory allocation of" in err:
        # the code under test asked for more than the harness allocator's hard cap (1 GiB) in one request and Rust
        # aborted the process: a memory-bound violation of that code, not a failure of the machinery
        import re as _re
        m = _re.search(r"memory allocation of (\d+) bytes failed", err)
        return {"evaluations": 1, "distinct_nontrivial": 0, "distinct_keys_all": [], "counters": {"violations[%s]" % alloc_abort: 1}, "samples": [], "wall_s": 0, "profile": profile,
                "violations": [{"sig": alloc_abort, "detail": {"requested_bytes": int(m.group(1)) if m else None, "stderr_tail": err[-400:], "command": " ".join(cmd)}}]}
    if r.returncode != 0 or not r.stdout.strip():
        sys.stderr.write(r.stderr.decode("utf-8", "replace")[-4000:])
        print("HARNESS-ERROR: %s exited %s" % (" ".join(cmd), r.returncode))
        sys.exit(2)
    if b"harness panic" in r.stderr:
        sys.stderr.write(r.stderr.decode("utf-8", "replace")[-4000:])
        print("HARNESS-ERROR: harness panic in %s" % sub)
        sys.exit(2)
    return json.loads(r.stdout.decode())


def run_vh_miri(sub, shards=16, cases=3, stage="lib", timeout=1500):
    """The same harness under Miri (UB + data-race interpreter), tiny workloads, sharded over cores.
    Returns (list of vh JSON reports, list of (signature, detail) for interpreter errors, skipped_reason)."""
    from concurrent.futures import ThreadPoolExecutor
    hs = TARGET + "/harness-src" + SFX
    if not os.path.isdir(hs):
        build("vh")
    env = dict(os.environ, VERIF_REPO=REPO, CARGO_TARGET_DIR=TARGET + "/vh-miri" + SFX, CARGO_NET_OFFLINE="true",
               MIRIFLAGS="-Zmiri-disable-isolation -Zmiri-tree-borrows -Zmiri-ignore-leaks", RUST_BACKTRACE="0")
    # build once (also builds the Miri sysroot, offline)
    b = subprocess.run(["cargo", "+nightly", "miri", "run", "--offline", "-q", "--", "c18", "--tiny", "--cases", "1", "--threads", "1"], cwd=hs, env=env, stdout=subprocess.PIPE, stderr=subprocess.PIPE, timeout=timeout)
    if b.returncode != 0 and b"Undefined Behavior" not in b.stderr:
        return [], [], "miri unavailable: " + b.stderr.decode("utf-8", "replace")[-300:]

    def one(i):
        wd = workdir("miri-%s-%d" % (sub, i))
        cmd = ["cargo", "+nightly", "miri", "run", "--offline", "-q", "--", sub, "--tiny", "--cases", str(cases), "--stage", stage, "--threads", "1", "--seed", str(seed() * 1000 + i), "--work", wd]
        try:
            r = subprocess.run(cmd, cwd=hs, env=env, stdout=subprocess.PIPE, stderr=subprocess.PIPE, timeout=timeout)
        except subprocess.TimeoutExpired:
            return None, None
        finally:
            shutil.rmtree(wd, ignore_errors=True)
        err = r.stderr.decode("utf-8", "replace")
        rep = None
        try:
            rep = json.loads(r.stdout.decode())
        except Exception:
            pass
        bad = None
        if "Undefined Behavior" in err or "Data race" in err or "data race" in err:
            first = [l for l in err.splitlines() if l.startswith("error")][:1]
            where = [l.strip() for l in err.splitlines() if l.strip().startswith("--> ")][:1]
            bad = ("miri|%s" % (first[0][:80] if first else "error"), {"shard": i, "where": where, "stderr_tail": err[-1500:]})
        return rep, bad

    reps, bads = [], []
    with ThreadPoolExecutor(NCPU) as ex:
        for rep, bad in ex.map(one, range(shards)):
            if rep:
                reps.append(rep)
            if bad:
                bads.append(bad)
    return reps, bads, None


def asan_stage(res, pid, timeout=3600):
    """Thorough tier: the check's quick process-level workload once more against the AddressSanitizer build
    of the CLI. ASan reports are collected through ASAN_OPTIONS=log_path; any report is a violation."""
    if VARIANT:
        return
    import glob
    import tempfile
    out = tempfile.mkdtemp(prefix="asan-%s-" % pid, dir=WORK if os.path.isdir(WORK) else None)
    logdir = os.path.join(out, "asanlog")
    os.makedirs(logdir)
    env = dict(os.environ, VERIF_VARIANT="asan", VERIF_OUT=out, VERIF_WORK=os.path.join(out, "work"), VERIF_ASAN_LOG=os.path.join(logdir, "asan"), VERIF_SEED=str(seed() + 424242))
    try:
        r = subprocess.run([V + "/check", pid, "--tier", "quick"], env=env, cwd=V, stdout=subprocess.PIPE, stderr=subprocess.PIPE, timeout=timeout, text=True)
    except subprocess.TimeoutExpired:
        res.extra["asan_stage"] = {"skipped": "timeout"}
        shutil.rmtree(out, ignore_errors=True)
        return
    ev = None
    try:
        ev = json.load(open(os.path.join(out, "evidence", pid + ".json")))
    except Exception:
        pass
    reports = sorted(glob.glob(os.path.join(logdir, "asan*")))
    for rp in reports[:20]:
        txt = open(rp, errors="replace").read()
        first = [l for l in txt.splitlines() if "ERROR: AddressSanitizer" in l][:1]
        frames = [l.strip() for l in txt.splitlines() if l.strip().startswith("#") and "copia" in l][:3]
        kind = first[0].split("AddressSanitizer:")[1].split()[0] if first and "AddressSanitizer:" in first[0] else "report"
        res.violation("%s|asan|%s" % (pid, kind), {"report_head": txt[:1500], "copia_frames": frames})
    if r.returncode == 2 and not reports:
        res.extra["asan_stage"] = {"skipped": "variant run failed: " + (r.stdout + r.stderr)[-300:]}
    else:
        cov = (ev or {}).get("coverage", {})
        res.extra["asan_stage"] = {"evaluations": cov.get("evaluations"), "asan_reports": len(reports), "variant_exit": r.returncode, "variant_violation_signatures": cov.get("violation_signatures"), "build": "nightly -Zsanitizer=address, release profile; RLIMIT_AS and the malloc-logging shim are off in this stage"}
        # a behavioural violation that shows only in the ASan build is still a violation of the property
        if r.returncode == 1:
            for sig, n in (cov.get("violation_signatures") or {}).items():
                res.violation(sig + "|asan-build", {"count": n, "note": "seen when the quick workload ran against the ASan build"})
    shutil.rmtree(out, ignore_errors=True)


class Result:
    """Accumulates what one check observed."""

    def __init__(self, pid, level, rule):
        self.pid = pid
        self.level = level
        self.rule = rule
        self.evaluations = 0
        self.distinct = set()
        self.samples = []
        self.violations = []  # {"sig":..., "detail":...}
        self.violation_counts = {}
        self.counters = {}
        self.inconclusive = 0
        self.assumptions = []
        self.extra = {}
        self.t0 = time.time()
        self.exhaustive = None
        self.min_conclusive = 1

    def count(self, k, n=1):
        self.counters[k] = self.counters.get(k, 0) + n

    def cmax(self, k, n):
        self.counters[k] = max(self.counters.get(k, 0), n)

    def sample(self, s, cap=8):
        if len(self.samples) < cap:
            self.samples.append(s)

    def violation(self, sig, detail):
        self.violation_counts[sig] = self.violation_counts.get(sig, 0) + 1
        if sum(1 for v in self.violations if v["sig"] == sig) < 5:
            self.violations.append({"sig": sig, "detail": detail})

    def merge_vh(self, j, prefix=""):
        self.evaluations += j["evaluations"]
        keys = j.get("distinct_keys_all", [])
        for k in keys:
            self.distinct.add(k)
        self._distinct_extra = getattr(self, "_distinct_extra", 0)
        # vh reports only the count plus a sample of keys; keep counts per stage
        self.extra.setdefault("stages", []).append({"stage": prefix or "vh", "evaluations": j["evaluations"], "distinct_nontrivial": j["distinct_nontrivial"], "wall_s": round(j.get("wall_s", 0), 2), "profile": j.get("profile"), "distinct_keys_sample": j.get("distinct_keys_sample", [])})
        # keys beyond vh's 50 000-key cap cannot be unioned; count only the overflow of this stage
        self._distinct_extra += max(0, j["distinct_nontrivial"] - len(keys))
        for k, v in j.get("counters", {}).items():
            if k.startswith("violations["):
                continue
            kk = prefix + k
            if k.startswith("max_"):
                self.cmax(kk, v)
            else:
                self.count(kk, v)
        for s in j.get("samples", []):
            self.sample(s)
        for v in j.get("violations", []):
            sig = v["sig"]
            if sum(1 for x in self.violations if x["sig"] == sig) < 5:
                self.violations.append(v)
        for k, v in j.get("counters", {}).items():
            if k.startswith("violations["):
                sig = k[len("violations["):-1]
                self.violation_counts[sig] = self.violation_counts.get(sig, 0) + v
        self.inconclusive += j.get("inconclusive", 0)

    def n_distinct(self):
        return len(self.distinct) + getattr(self, "_distinct_extra", 0)


def load_known():
    p = V + "/known_findings.json"
    if not os.path.exists(p):
        return {"known": [], "fixed": []}
    return json.load(open(p))


def finish(res, tier):
    """Write evidence, print verdict lines, exit."""
    known = load_known()
    known_sigs = {k["signature"]: k for k in known.get("known", []) if k.get("property") == res.pid}
    new = {}
    kf = {}
    for sig, n in sorted(res.violation_counts.items()):
        if sig in known_sigs:
            kf[sig] = n
        else:
            new[sig] = n
    OUT = os.environ.get("VERIF_OUT", V)  # the mutation self-test redirects evidence and replays
    os.makedirs(OUT + "/evidence", exist_ok=True)
    os.makedirs(OUT + "/replays", exist_ok=True)
    replay_paths = {}
    for sig in new:
        safe = "".join(c if c.isalnum() or c in "-_" else "_" for c in sig)[:80]
        p = "%s/replays/%s-%d-%s.json" % (OUT, res.pid, seed(), safe)
        wit = [v for v in res.violations if v["sig"] == sig]
        json.dump({"property": res.pid, "signature": sig, "seed": seed(), "tier": tier, "count": new[sig], "witnesses": wit}, open(p, "w"), indent=1, default=str)
        replay_paths[sig] = p
    samples = res.samples[:8] or [{"note": "no sample recorded"}]
    cov = {
        "evaluations": int(res.evaluations),
        "distinct_nontrivial": int(res.n_distinct()),
        "rule": res.rule,
        "samples": samples,
        "counters": res.counters,
        "inconclusive": res.inconclusive,
        "violation_signatures": res.violation_counts,
        "known_findings_seen": kf,
    }
    cov["copia_binary"] = COPIA + (" (variant: %s)" % VARIANT if VARIANT else "")
    if res.exhaustive is not None:
        cov["exhaustive"] = res.exhaustive
    cov.update(res.extra)
    ev = {
        "property_id": res.pid,
        "tier": tier,
        "seed": seed(),
        "level": res.level,
        "coverage": cov,
        "assumptions": res.assumptions,
        "wall_s": round(time.time() - res.t0, 2),
        "violations": int(sum(new.values())),
    }
    tmp = "%s/evidence/%s.json.tmp" % (OUT, res.pid)
    json.dump(ev, open(tmp, "w"), indent=1, default=str)
    os.replace(tmp, "%s/evidence/%s.json" % (OUT, res.pid))
    for sig, n in kf.items():
        print("KNOWN-FINDING: property=%s %s (%s; seen %d times this run)" % (res.pid, sig, known_sigs[sig].get("what", ""), n))
    for sig, n in new.items():
        print("VIOLATION property=%s replay=%s  # %s x%d" % (res.pid, replay_paths[sig], sig, n))
    print("%s %s: evaluations=%d distinct_nontrivial=%d inconclusive=%d violations=%d known=%d wall=%.1fs" % (res.pid, tier, res.evaluations, res.n_distinct(), res.inconclusive, sum(new.values()), sum(kf.values()), time.time() - res.t0))
    if new:
        sys.exit(1)
    if res.evaluations < res.min_conclusive or res.n_distinct() < 2:
        print("HARNESS-ERROR: observed too little (evaluations=%d, distinct=%d)" % (res.evaluations, res.n_distinct()))
        sys.exit(2)
    sys.exit(0)
