"""Bisync history engine and the monitors of C02, C06, C07, C08, C15 (bisync part)."""
import json
import os
import re
import shutil
import subprocess
import sys
import time
from multiprocessing import Pool

from common import asan_stage, COPIA, NCPU, WORK, Result, SplitMix, build, finish, seed, workdir
from fsutil import (copy_tree, B3, MUTATING, STAGING, base_env, clear_traces, content_map, is_staging, read_traces, rmtree, run, set_mtime, shim_env, snapshot, write_file)

PATH_POOL = ["f", "g", "d/h", "d/e/i", "d.x", "d/e.y", "with space", "it's", "new\nline", "é日", "-dash", "d/star*", "q?", "$x", "c", "c/x", "back\\slash", "h.txt", "d/" + "日" * 70, "p" + "é" * 104]
SHARED_CONTENTS = [b"Z", b"Y", b"", b"X" * 3000, b"W" * 70000]
CONFLICT_RE = re.compile(r"^(.*)\.conflict-vh-([0-9a-f]{12})$", re.S)


class Sandbox:
    def __init__(self, root):
        self.root = root
        rmtree(root)
        self.A = os.path.join(root, "A")
        self.B = os.path.join(root, "B")
        self.home = os.path.join(root, "home")
        for d in (self.A, self.B, self.home):
            os.makedirs(d)
        self.losers = {}  # conflict-copy relpath -> bytes it was created with

    def env(self):
        return base_env(self.home)

    def archive_dir(self):
        return os.path.join(self.home, ".copia", "archive")

    def archive_file(self):
        d = self.archive_dir()
        if not os.path.isdir(d):
            return None
        c = [f for f in os.listdir(d) if f.endswith(".json")]
        return os.path.join(d, c[0]) if c else None

    def archive_bytes(self):
        f = self.archive_file()
        if f is None:
            return None
        try:
            return open(f, "rb").read()
        except OSError:
            return None

    def archive_listing(self):
        d = self.archive_dir()
        if not os.path.isdir(d):
            return {}
        out = {}
        for f in sorted(os.listdir(d)):
            try:
                out[f] = open(os.path.join(d, f), "rb").read()
            except OSError:
                pass
        return out

    def side(self, s):
        return self.A if s == "A" else self.B

    def snaps(self):
        return {"A": snapshot(self.A), "B": snapshot(self.B)}

    def destroy(self):
        rmtree(self.root)


# ------------------------------------------------------------------ histories
def gen_history(rng, hostile=True, clash_ok=True):
    """A history is a list of steps; deterministic given rng."""
    pool = list(PATH_POOL if hostile else PATH_POOL[:4])
    if not clash_ok or not rng.chance(1, 8):
        pool = [p for p in pool if p not in ("c", "c/x")]
    paths = rng.shuffle(pool)[: rng.range(2, 5)]
    steps = []
    nonce = [0]

    def content(side, stepno):
        k = rng.below(10)
        if k < 4:
            return rng.pick(SHARED_CONTENTS)
        nonce[0] += 1
        pad = b"" if k < 8 else b"." * rng.range(1, 5000)
        head = b"%s:%d:%d:" % (side.encode(), stepno, nonce[0])
        if rng.chance(1, 12):
            # sizes that sit exactly on, just below and just above the boundaries an implementation may branch on
            want = rng.pick([65536, 1 << 20, 1 << 20, (1 << 20) - 1, (1 << 20) + 1, 262144, 8192])
            return (head + b"#" * want)[:want]
        return head + pad

    # initial trees
    for p in paths:
        k = rng.below(6)
        if k == 0:
            c = content("AB", 0)
            steps.append(("w", "A", p, c))
            steps.append(("w", "B", p, c))
        elif k == 1:
            steps.append(("w", "A", p, content("A", 0)))
            steps.append(("w", "B", p, content("B", 0)))
        elif k == 2:
            steps.append(("w", "A", p, content("A", 0)))
        elif k == 3:
            steps.append(("w", "B", p, content("B", 0)))
    if rng.chance(1, 4):
        # things that are not regular files and live in a replica anyway (nobody's to sync or delete)
        for i in range(rng.range(1, 2)):
            steps.append(("ex", "A" if rng.chance(1, 2) else "B", rng.pick(["zz.extra-%d" % i, "d/zz.extra-%d" % i]), rng.pick(["dangling", "loop", "emptydir", "fifo"])))
    n = rng.range(3, 14)
    syncs = 0
    for i in range(1, n + 1):
        k = rng.below(20)
        side = "A" if rng.chance(1, 2) else "B"
        p = rng.pick(paths)
        if k < 7:
            steps.append(("w", side, p, content(side, i)))
        elif k < 10:
            steps.append(("d", side, p))
        elif k < 11:
            steps.append(("d", "A", p))
            steps.append(("d", "B", p))
        elif k < 12:
            steps.append(("wc", side, rng.below(8), content(side, i)))
        elif k < 13:
            # repeat an earlier conflict with the same losing content on one side
            steps.append(("rc", side, rng.below(8), content(side, i)))
        elif k < 14:
            # same content on both sides (independent identical edit)
            c = content("AB", i)
            steps.append(("w", "A", p, c))
            steps.append(("w", "B", p, c))
        elif k == 19:
            steps.append(rng.pick([("ro", side, p), ("ro", side, p), ("hl", side, p), ("dall", side)]))
        else:
            steps.append(("s",))
            syncs += 1
    if syncs == 0 or steps[-1][0] != "s":
        steps.append(("s",))
    return steps


def scripted_histories():
    """Shapes named in the property quantifiers, generated deliberately."""
    Z, Y, X = b"Z", b"Y", b"X-unique"
    H = []
    # deleted on both sides, later recreated with the same / a different content
    H.append([("w", "A", "f", Z), ("w", "B", "f", Z), ("s",), ("d", "A", "f"), ("d", "B", "f"), ("s",), ("w", "A", "f", Z), ("s",)])
    H.append([("w", "A", "f", Z), ("w", "B", "f", Z), ("s",), ("d", "A", "f"), ("d", "B", "f"), ("s",), ("w", "B", "f", Y), ("s",)])
    H.append([("w", "A", "d/h", Z), ("s",), ("d", "A", "d/h"), ("d", "B", "d/h"), ("s",), ("s",), ("w", "B", "d/h", Z), ("s",), ("s",)])
    # conflict, then the same loser again
    H.append([("w", "A", "f", b"base"), ("w", "B", "f", b"base"), ("s",), ("w", "A", "f", b"a1"), ("w", "B", "f", b"b1"), ("s",), ("w", "A", "f", b"a1"), ("w", "B", "f", b"b1"), ("s",), ("s",)])
    # conflict -> edit the conflict copy on one side -> the same conflict again
    for side in ("A", "B"):
        H.append([("w", "A", "f", b"base"), ("w", "B", "f", b"base"), ("s",), ("w", "A", "f", b"a1"), ("w", "B", "f", b"b1"), ("s",), ("wc", side, 0, b"user-edited-conflict-copy"), ("w", "A", "f", b"a1"), ("w", "B", "f", b"b1"), ("s",), ("s",)])
    # ... with the old loser coming back against fresh content (it loses again for about half of the fresh contents)
    for side in ("A", "B"):
        for fresh in (b"n1", b"n2", b"n3", b"n4"):
            H.append([("w", "A", "f", b"base"), ("w", "B", "f", b"base"), ("s",), ("w", "A", "f", b"a1"), ("w", "B", "f", b"b1"), ("s",), ("wc", side, 0, b"user-edited-conflict-copy"), ("rc", side, 0, fresh), ("s",), ("s",)])
    # delete vs modify, both directions
    H.append([("w", "A", "g", Z), ("w", "B", "g", Z), ("s",), ("d", "A", "g"), ("w", "B", "g", X), ("s",), ("s",)])
    H.append([("w", "A", "g", Z), ("w", "B", "g", Z), ("s",), ("d", "B", "g"), ("w", "A", "g", X), ("s",), ("s",)])
    # a file beside a directory whose name is its prefix (`d.x` next to `d/`): byte order and path order differ
    H.append([("w", "A", "d.x", b"base"), ("w", "B", "d.x", b"base"), ("w", "A", "d/h", Z), ("w", "B", "d/h", Z), ("s",), ("w", "A", "d.x", b"a-edit"), ("w", "B", "d.x", b"b-edit"), ("w", "A", "d/zz", b"new-in-dir"), ("s",), ("s",)])
    H.append([("w", "A", "d.x", b"base"), ("w", "B", "d.x", b"base"), ("w", "A", "d/h", Z), ("w", "B", "d/h", Z), ("w", "B", "d/e/i", Y), ("w", "A", "d/e/i", Y), ("s",), ("w", "B", "d.x", b"b2"), ("w", "A", "d.x", b"a2"), ("d", "B", "d/h"), ("s",), ("s",)])
    # both sides make the same edit, later one side goes back to the old bytes
    H.append([("w", "A", "f", b"v1"), ("w", "B", "f", b"v1"), ("s",), ("w", "A", "f", b"v2"), ("w", "B", "f", b"v2"), ("s",), ("w", "A", "f", b"v1"), ("s",), ("s",)])
    H.append([("w", "A", "f", b"v1"), ("w", "B", "f", b"v1"), ("s",), ("w", "A", "f", b"v2"), ("w", "B", "f", b"v2"), ("s",), ("d", "A", "f"), ("w", "B", "f", b"v1"), ("s",), ("s",)])
    # create on one side, three paths in one run, empty file
    H.append([("w", "A", "f", b""), ("w", "B", "g", Y), ("w", "A", "d/e/i", X), ("s",), ("w", "A", "g", b"g2"), ("d", "B", "f"), ("w", "B", "d/e/i", b"i2"), ("s",), ("s",)])
    # a run that ends with a conflict must still record what it did: afterwards one side goes back to bytes it
    # had before that run / re-creates a file whose delete that run mirrored
    for side, other in (("A", "B"), ("B", "A")):
        H.append([("w", "A", "f", b"base"), ("w", "B", "f", b"base"), ("s",), ("w", "A", "f", b"AAA"), ("w", "B", "f", b"BBB"), ("s",), ("w", side, "f", b"base"), ("s",), ("s",)])
        H.append([("w", "A", "f", b"base"), ("w", "B", "f", b"base"), ("w", "A", "g", Z), ("w", "B", "g", Z), ("s",), ("w", "A", "f", b"AAA"), ("w", "B", "f", b"BBB"), ("d", side, "g"), ("s",), ("w", other, "g", Z), ("s",), ("s",)])
        H.append([("w", "A", "f", b"base"), ("w", "B", "f", b"base"), ("w", "A", "g", b"g1"), ("w", "B", "g", b"g1"), ("s",), ("w", "A", "f", b"AAA"), ("w", "B", "f", b"BBB"), ("w", side, "g", b"g2"), ("s",), ("w", side, "g", b"g1"), ("s",), ("s",)])
    # write-protected files are replaced, deleted and conflict-copied like any other
    H.append([("w", "A", "f", Z), ("w", "B", "f", Z), ("w", "A", "g", Y), ("w", "B", "g", Y), ("ro", "A", "f"), ("ro", "B", "f"), ("ro", "B", "g"), ("s",), ("w", "A", "f", X), ("ro", "A", "f"), ("d", "A", "g"), ("s",), ("w", "A", "f", b"a2"), ("w", "B", "f", b"b2"), ("ro", "A", "f"), ("ro", "B", "f"), ("s",), ("s",)])
    # every file of one replica deleted (the replica itself must survive the propagated deletes)
    for side in "AB":
        H.append([("w", "A", "f", Z), ("w", "A", "d/h", Y), ("s",), ("dall", side), ("s",), ("s",), ("w", side, "f", X), ("s",)])
    # 255 / 256 numbered names beside an edited conflict-copy are taken, then the old loser comes back
    for n in (3, 255, 256):
        for fresh in (b"n1", b"n2", b"n3", b"n4"):
            H.append([("w", "A", "f", b"base"), ("w", "B", "f", b"base"), ("s",), ("w", "A", "f", b"a1"), ("w", "B", "f", b"b1"), ("s",), ("wc", "A", 0, b"user-edited-conflict-copy"), ("fill", "A", 0, n), ("s",), ("rc", "B", 0, fresh), ("s",), ("s",)])
    # the earlier conflict-copy is edited DIFFERENTLY on the two sides (so it is itself a divergent edit in the next
    # run) and the old loser comes back: its name is taken by two contents, neither of which may be overwritten
    for side in "AB":
        for fresh in (b"n1", b"n2", b"n3", b"n4"):
            H.append([("w", "A", "f", b"base"), ("w", "B", "f", b"base"), ("s",), ("w", "A", "f", b"a1"), ("w", "B", "f", b"b1"), ("s",), ("wc", "A", 0, b"copy-edited-on-A"), ("wc", "B", 0, b"copy-edited-on-B"), ("rc", side, 0, fresh), ("s",), ("s",)])
    # a name that is not valid UTF-8
    H.append([("w", "A", "keep", Z), ("w", "B", "keep", Z), ("s",), ("w", "A", "caf\udce9.txt", Y), ("s",), ("s",), ("d", "B", "caf\udce9.txt"), ("s",)])
    H.append([("w", "B", "d/\udcff\udcfe", X), ("w", "A", "g", Y), ("s",), ("s",)])
    # a non-UTF-8 name on both sides, later a file whose name is that name's lossy rendering with the same bytes
    for side in "AB":
        H.append([("w", "A", "caf\udce9.txt", Z), ("w", "B", "caf\udce9.txt", Z), ("w", "A", "keep", Y), ("w", "B", "keep", Y), ("s",), ("w", side, "caf\ufffd.txt", Z), ("s",), ("s",)])
    # the receiving file has a second hard link elsewhere
    H.append([("w", "A", "f", Z), ("w", "B", "f", Z), ("w", "A", "g", Y), ("w", "B", "g", Y), ("s",), ("hl", "B", "f"), ("hl", "A", "g"), ("w", "A", "f", X), ("d", "B", "g"), ("s",), ("s",)])
    # recreate after delete propagated
    H.append([("w", "A", "f", Z), ("s",), ("d", "A", "f"), ("s",), ("w", "B", "f", Z), ("s",), ("d", "B", "f"), ("s",), ("w", "A", "f", Z), ("w", "B", "f", Z), ("s",), ("d", "A", "f"), ("s",)])
    # a file is copied inside one replica and then the original (or the copy) is edited, or moved away: for a moment a
    # replica holds the same bytes under two names, and whoever "finds the content nearby" instead of copying it across
    # must still deliver the bytes the sender has at each path
    V1, V2, V3 = b"version one of the config " * 40, b"version two of the config " * 40, b"third " * 700
    for side in ("A", "B"):
        for orig, copy in (("etc/config.yml", "etc/config.yml.orig"), ("m", "a-copy-sorting-first"), ("d/x", "x-elsewhere"), ("big1m", "big1m.bak")):
            c1 = V1 if orig != "big1m" else (b"0123456789abcdef" * 65536)
            H.append([("w", "A", orig, c1), ("w", "B", orig, c1), ("s",), ("w", side, copy, c1), ("w", side, orig, V2), ("s",), ("s",)])
            H.append([("w", "A", orig, c1), ("w", "B", orig, c1), ("s",), ("w", side, copy, c1), ("w", side, orig, V2), ("w", "B" if side == "A" else "A", "unrelated", V3), ("s",), ("w", side, copy, V3), ("s",), ("s",)])
        # a rename (copy + delete of the original), and a swap of two files' contents
        H.append([("w", "A", "old-name", V1), ("w", "B", "old-name", V1), ("s",), ("w", side, "new-name", V1), ("d", side, "old-name"), ("s",), ("s",)])
        H.append([("w", "A", "p", V1), ("w", "B", "p", V1), ("w", "A", "q", V2), ("w", "B", "q", V2), ("s",), ("w", side, "p", V2), ("w", side, "q", V1), ("s",), ("s",)])
    # a pair of a few thousand files (the recorded common state is well over 1 MiB of JSON): whatever is bounded,
    # batched or parallelised by count or by size has to get across its threshold - the run after the first one must
    # still find its record, plan nothing, and a one-sided delete must still be a delete
    many = [("w", "A", "tree/d%02d/f%04d" % (i % 37, i), b"file %d" % i) for i in range(3000)]
    H.append(many + [("s",), ("s",), ("d", "A", "tree/d00/f0000"), ("w", "B", "tree/d01/f0001", b"edited on B"), ("s",), ("s",)])
    return H


def apply_step(sb, step, mtime_of=None):
    kind = step[0]
    if kind == "w":
        _, side, p, c = step
        full = os.path.join(sb.side(side), p)
        # a user replacing a file by a directory (or vice versa) removes the obstacle first
        parent = os.path.dirname(full)
        cur = sb.side(side)
        for comp in os.path.relpath(parent, cur).split(os.sep) if parent != cur else []:
            cur = os.path.join(cur, comp)
            if os.path.isfile(cur) or os.path.islink(cur):
                os.unlink(cur)
        if os.path.isdir(full) and not os.path.islink(full):
            shutil.rmtree(full)
        write_file(full, c)
        if mtime_of is not None:
            set_mtime(full, mtime_of(side, p))
        return full
    if kind == "d":
        _, side, p = step
        full = os.path.join(sb.side(side), p)
        try:
            os.unlink(full)
        except OSError:
            pass
        return None
    if kind == "fill":
        # user-created files named like numbered conflict-copies: <copy>-1 .. <copy>-n, all with contents of their own
        _, side, k, n = step
        cm = content_map(snapshot(sb.side(side)))
        cands = sorted(p for p in cm if CONFLICT_RE.match(p))
        if not cands:
            return None
        p = cands[k % len(cands)]
        for i in range(1, n + 1):
            write_file(os.path.join(sb.side(side), "%s-%d" % (p, i)), b"user file beside a conflict-copy #%d" % i)
        return None
    if kind == "hl":
        # a second name for the file's inode outside both replicas (deduplicated storage, backups made with cp -l)
        _, side, p = step
        try:
            os.makedirs(os.path.join(sb.root, "links"), exist_ok=True)
            os.link(os.path.join(sb.side(side), p), os.path.join(sb.root, "links", "%s-%d" % (side, len(os.listdir(os.path.join(sb.root, "links"))))))
        except OSError:
            pass
        return None
    if kind == "dall":
        _, side = step
        for p in sorted(content_map(snapshot(sb.side(side)))):
            try:
                os.unlink(os.path.join(sb.side(side), p))
            except OSError:
                pass
        return None
    if kind == "ex":
        _, side, p, what = step
        full = os.path.join(sb.side(side), p)
        try:
            os.makedirs(os.path.dirname(full), exist_ok=True)
            if what == "dangling":
                os.symlink("no-such-target", full)
            elif what == "loop":
                os.symlink(os.path.basename(full), full)
            elif what == "emptydir":
                os.makedirs(full)
            else:
                os.mkfifo(full)
        except OSError:
            pass
        return None
    if kind == "ro":
        _, side, p = step
        try:
            os.chmod(os.path.join(sb.side(side), p), 0o444)
        except OSError:
            pass
        return None
    if kind == "wc":
        _, side, k, c = step
        cm = content_map(snapshot(sb.side(side)))
        cands = sorted(p for p in cm if CONFLICT_RE.match(p))
        if not cands:
            return None
        p = cands[k % len(cands)]
        full = os.path.join(sb.side(side), p)
        write_file(full, c)
        if mtime_of is not None:
            set_mtime(full, mtime_of(side, p))
        return full
    if kind == "rc":
        _, side, k, c = step
        cands = sorted(sb.losers)
        if not cands:
            return None
        cp = cands[k % len(cands)]
        basep = CONFLICT_RE.match(cp).group(1)
        other = "B" if side == "A" else "A"
        for sd, data in ((side, sb.losers[cp]), (other, c)):
            full = os.path.join(sb.side(sd), basep)
            if os.path.isdir(os.path.dirname(full)) and not os.path.isdir(full):
                write_file(full, data)
                if mtime_of is not None:
                    set_mtime(full, mtime_of(sd, basep))
        return None
    return None


def swap_step(step):
    sw = {"A": "B", "B": "A"}
    if step[0] in ("w", "d", "wc", "rc", "ro", "ex", "fill", "hl", "dall"):
        return (step[0], sw[step[1]]) + tuple(step[2:])
    return step


PLAN_RE = re.compile(r"Bidirectional plan: (\d+) action\(s\), (\d+) conflict\(s\)")


def bisync(sb, dry=False, swapped=False, env=None, verbose=False, timeout=60, spell=None):
    """spell: the same two directories named another way (trailing slash, `/.`, doubled slash, relative to the cwd):
    the recorded common state belongs to the pair of directories, not to a spelling of their names."""
    a, b = (sb.B, sb.A) if swapped else (sb.A, sb.B)
    cwd = None
    if spell == "slash":
        a, b = a + "/", b + "/"
    elif spell == "dot":
        a, b = a + "/.", b
    elif spell == "dslash":
        a, b = os.path.dirname(a) + "//" + os.path.basename(a), os.path.dirname(b) + "/./" + os.path.basename(b)
    elif spell == "rel":
        cwd = sb.root
        a, b = "./" + os.path.relpath(a, sb.root), os.path.relpath(b, sb.root)
    argv = ["bisync", a, b]
    if dry:
        argv.append("--dry-run")
    if verbose:
        argv.append("--verbose")
    return run(argv, env or sb.env(), timeout=timeout, cwd=cwd)


def completed(r):
    return "Bidirectional sync complete" in r.stdout


def plan_counts(r):
    m = PLAN_RE.search(r.stderr)
    return (int(m.group(1)), int(m.group(2))) if m else None


def note_losers(sb, pre, post):
    for sd in "AB":
        for cp in post[sd]:
            if cp not in pre[sd] and cp not in sb.losers and CONFLICT_RE.match(cp):
                try:
                    sb.losers[cp] = open(os.path.join(sb.side(sd), cp), "rb").read()
                except OSError:
                    pass


def execute(sb, hist, mode="plain", rng=None, on_run=None):
    """Run a history. mode: plain | mtimes | swapped. Calls on_run(info) after every bisync.
    info: dict(pre=snaps, post=snaps, pre_arch, post_arch, result, completed, stepno, last_common)."""
    swapped = mode == "swapped"
    mt = None
    if mode == "mtimes":
        mrng = rng or SplitMix(7)

        def mt(side, p):
            k = mrng.below(5)
            if k == 0:
                return 1_000_000_000 + mrng.below(1000)
            if k == 1:
                return 4_000_000_000 + mrng.below(1000)  # far future
            if k == 2:
                return 1_700_000_000  # identical on both sides
            if k == 3:
                return (1_700_000_000 - (1 if side == "A" else 0), 500_000_000)
            return 1_700_000_000 + (5 if side == "A" else -5)

    last_common = {}
    runs = []
    for i, st in enumerate(hist):
        if swapped:
            st = swap_step(st)
        if st[0] in ("s", "n"):
            pre = sb.snaps()
            pre_arch = sb.archive_bytes()
            r = bisync(sb, dry=(st[0] == "n"), swapped=swapped)
            post = sb.snaps()
            post_arch = sb.archive_bytes()
            note_losers(sb, pre, post)
            info = {"pre": pre, "post": post, "pre_arch": pre_arch, "post_arch": post_arch, "result": r, "completed": completed(r), "stepno": i, "last_common": dict(last_common), "dry": st[0] == "n", "timed_out": r.timed_out}
            runs.append(info)
            if on_run:
                on_run(info)
            if info["completed"]:
                ca, cb = content_map(post["A"]), content_map(post["B"])
                last_common = {p: ca[p] for p in ca if p in cb and ca[p] == cb[p]}
        else:
            apply_step(sb, st, mt)
    return runs


# ------------------------------------------------------------------ C02 loss monitor
def rel(x, y):
    if x is None:
        return "absent"
    return "same" if x == y else "diff"


def loss_monitor(info, b3=None):
    """Returns list of (signature, detail) for versions lost by this run."""
    out = []
    if info["dry"] or info["timed_out"]:
        return out
    pre = {s: content_map(info["pre"][s]) for s in "AB"}
    post = {s: content_map(info["post"][s]) for s in "AB"}
    post_all = {s: set(content_map(info["post"][s], staging=True).values()) for s in "AB"}
    lc = info["last_common"]
    tracked = exempt = 0
    for side, other in (("A", "B"), ("B", "A")):
        for p, c in pre[side].items():
            tracked += 1
            if lc.get(p) == c and pre[other].get(p) != c:
                exempt += 1
                continue
            onA = c in post_all["A"]
            onB = c in post_all["B"]
            ok = (onA and onB) if info["completed"] else (onA or onB)
            if ok:
                continue
            situation = "other=%s;lc=%s" % (rel(pre[other].get(p), c), rel(lc.get(p), c))
            sig = "C02|lost-version|%s|%s" % ("completed" if info["completed"] else "aborted", situation)
            m = CONFLICT_RE.match(p)
            if m and info["completed"]:
                basep, hx = m.group(1), m.group(2)
                # repeat conflict at the base path whose loser has this hash prefix?
                a0, b0 = pre["A"].get(basep), pre["B"].get(basep)
                if a0 is not None and b0 is not None and a0 != b0 and lc.get(basep) not in (a0, b0):
                    sig = "C02|lost-version|edited-conflict-copy-overwritten-by-repeat-conflict"
            out.append((sig, {"side": side, "path": p, "content_id": c, "on_A_after": onA, "on_B_after": onB, "situation": situation, "run": info["result"].brief()}))
    # a file created on one side only (absent on the other side, not part of the last common state) is not in
    # conflict with anything: after a completed run it is at ITS path on both sides (content alone is not enough -
    # the same bytes may also live under another name)
    if info["completed"]:
        for side, other in (("A", "B"), ("B", "A")):
            for p, c in pre[side].items():
                if p in pre[other] or p in lc or CONFLICT_RE.match(p):
                    continue
                if post["A"].get(p) != c or post["B"].get(p) != c:
                    out.append(("C02|one-sided-creation-not-at-its-path-on-both-sides", {"side": side, "path": p, "on_A_after": post["A"].get(p) == c, "on_B_after": post["B"].get(p) == c, "run": info["result"].brief()}))
    info["tracked"] = tracked
    info["exempt"] = exempt
    return out


def shape_of(hist):
    """Sequence of op kinds with path identities abstracted."""
    ids = {}
    s = []
    for st in hist:
        if st[0] in ("w", "d"):
            k = ids.setdefault(st[2], len(ids))
            s.append("%s%s%d" % (st[0], st[1], k))
        else:
            s.append(st[0])
    return "".join(s)


def hist_json(hist):
    out = []
    for st in hist:
        out.append([x.decode("latin-1")[:60] + ("...(%d)" % len(x) if len(x) > 60 else "") if isinstance(x, bytes) else x for x in st])
    return out


def hist_replay(hist):
    return [[("b64:" + __import__("base64").b64encode(x).decode()) if isinstance(x, bytes) else x for x in st] for st in hist]


def hist_for(seedv, idx, tag):
    scripted = scripted_histories()
    if idx < len(scripted):
        return scripted[idx]
    return gen_history(SplitMix.derive(seedv, tag, idx))


# ------------------------------------------------------------------ C02 worker
def _c02_worker(args):
    seedv, lo, hi, wroot = args
    res = {"evaluations": 0, "distinct": set(), "viol": [], "counters": {}, "samples": [], "inconclusive": 0}

    def cnt(k, n=1):
        res["counters"][k] = res["counters"].get(k, 0) + n

    sb_root = os.path.join(wroot, "w%d" % lo)
    for idx in range(lo, hi):
        hist = hist_for(seedv, idx, "c02")
        sb = Sandbox(sb_root)
        found = []
        nontrivial = [False]

        def on_run(info):
            lost = loss_monitor(info)
            found.extend(lost)
            cnt("runs_observed")
            cnt("versions_tracked", info.get("tracked", 0))
            cnt("exemptions_exercised", info.get("exempt", 0))
            if info["timed_out"]:
                res["inconclusive"] += 1
            pc = plan_counts(info["result"])
            if info["completed"]:
                cnt("runs_completed")
                if pc and pc[0] > 0 and info.get("tracked", 0) > info.get("exempt", 0):
                    nontrivial[0] = True
                if pc and pc[1] > 0:
                    cnt("runs_with_conflicts")
            else:
                cnt("runs_aborted")

        # blake3 is the only judge of "changed": every third history writes its files with mtimes that lie
        # (older than the last run, far future, identical on both sides, sub-second apart)
        mode = "mtimes" if idx % 3 == 2 else "plain"
        if mode == "mtimes":
            cnt("histories_with_hostile_mtimes")
        execute(sb, hist, mode=mode, rng=SplitMix.derive(seedv, "c02mt", idx), on_run=on_run)
        res["evaluations"] += 1
        if nontrivial[0]:
            res["distinct"].add(shape_of(hist) + ("|mt" if mode == "mtimes" else ""))
        for sig, det in found:
            det["history"] = hist_json(hist)
            det["history_index"] = idx
            res["viol"].append((sig, det))
        if len(res["samples"]) < 2:
            res["samples"].append({"history_index": idx, "steps": hist_json(hist)})
        sb.destroy()
    return res


def run_pool(worker, seedv, n, tag, extra=()):
    wroot = workdir(tag)
    per = max(1, (n + NCPU * 4 - 1) // (NCPU * 4))
    jobs = [(seedv, lo, min(n, lo + per), wroot) + tuple(extra) for lo in range(0, n, per)]
    with Pool(NCPU) as pool:
        parts = pool.map(worker, jobs)
    rmtree(wroot)
    return parts


def fold(res, parts):
    for p in parts:
        res.evaluations += p["evaluations"]
        res.distinct |= p["distinct"]
        res.inconclusive += p.get("inconclusive", 0)
        for k, v in p["counters"].items():
            if k.startswith("max_"):
                res.cmax(k, v)
            else:
                res.count(k, v)
        for s in p["samples"]:
            res.sample(s)
        for sig, det in p["viol"]:
            res.violation(sig, det)


# ------------------------------------------------------------------ C02: a file that became unreadable is not a deleted file
def _c02_unreadable_worker(args):
    """bisync run as an UNPRIVILEGED user (root reads everything): after a completed run that left both replicas in
    sync, one or two files of one replica become mode 000 (and, in half of the cases, something else changes too).
    An unreadable file has not been changed or deleted by its owner: the other replica's copy of that version must
    not disappear, whatever the run reports."""
    seedv, idx, wroot = args
    res = {"evaluations": 0, "distinct": set(), "viol": [], "counters": {}, "samples": [], "inconclusive": 0}
    rng = SplitMix.derive(seedv, "c02unreadable", idx)
    sb = Sandbox(os.path.join(wroot, "ur%d" % idx))
    files = {rng.pick(["f", "d/g", "e/h.txt", "k", "m n", "z/y/x"]) + ("" if i == 0 else str(i)): b"v1 %d %s" % (i, rng.bytes(3).hex().encode()) for i in range(rng.range(2, 6))}
    for pth, c in files.items():
        for side in "AB":
            apply_step(sb, ("w", side, pth, c))
    setp = ["--reuid=65534", "--regid=65534", "--clear-groups", COPIA]
    subprocess.run(["chmod", "-R", "a+rwX", sb.root], check=False)
    probe = subprocess.run(["setpriv", "--reuid=65534", "--regid=65534", "--clear-groups", "cat", os.path.join(sb.A, sorted(files)[0])], capture_output=True)
    if probe.returncode != 0:
        res["inconclusive"] += 1
        res["counters"]["unprivileged_stage_not_available"] = 1
        sb.destroy()
        return res
    r0 = run(setp + ["bisync", sb.A, sb.B], sb.env(), cwd=sb.home, timeout=90, copia="setpriv")
    if not completed(r0):
        res["inconclusive"] += 1
        sb.destroy()
        return res
    side = rng.pick("AB")
    other = "B" if side == "A" else "A"
    victims = rng.shuffle(sorted(files))[: rng.range(1, 2)]
    for v in victims:
        os.chmod(os.path.join(sb.side(side), v), 0)
    if rng.chance(1, 2):
        apply_step(sb, ("w", other, "new-on-the-other-side", b"new"))
        subprocess.run(["chmod", "-R", "a+rwX", sb.side(other)], check=False)
    r = run(setp + ["bisync", sb.A, sb.B], sb.env(), cwd=sb.home, timeout=90, copia="setpriv")
    if r.timed_out:
        res["inconclusive"] += 1
        sb.destroy()
        return res
    res["evaluations"] += 1
    res["counters"]["bisync_runs_as_an_unprivileged_user_with_an_unreadable_file"] = 1
    for v in victims:
        full = os.path.join(sb.side(other), v)
        ok = False
        try:
            ok = open(full, "rb").read() == files[v]
        except OSError:
            ok = False
        if not ok:
            res["viol"].append(("C02|lost-version|unreadable-on-one-side-taken-for-deleted", {"unreadable": "%s/%s" % (side, v), "other_side_copy_present": os.path.lexists(full), "completed": completed(r), "exit": r.code, "stderr_tail": r.stderr[-200:]}))
        # the unreadable file itself is still there, untouched
        st = os.lstat(os.path.join(sb.side(side), v)) if os.path.lexists(os.path.join(sb.side(side), v)) else None
        if st is None or st.st_size != len(files[v]):
            res["viol"].append(("C02|lost-version|unreadable-file-removed-or-rewritten", {"unreadable": "%s/%s" % (side, v), "exit": r.code}))
    if completed(r):
        res["counters"]["unreadable_file_and_run_reported_complete"] = 1
    else:
        res["counters"]["unreadable_file_reported_as_an_error"] = 1
    res["distinct"].add("unreadable|%s|%d|%s" % (side, len(victims), "complete" if completed(r) else "error"))
    for v in victims:
        os.chmod(os.path.join(sb.side(side), v), 0o644)
    sb.destroy()
    return res


def c02(tier):
    build("cli", "vh")
    r = Result("C02", "exploration", "one evaluation = one seeded history over {write, delete, edit-conflict-copy, bisync} on two real directories (scripted shapes from the quantifier first, then random); before/after every run both trees are snapshotted and the loss monitor checks every (side, path, content) version present at run start: unless it is the last common version and the other side changed/deleted the path, its content must be on BOTH sides after a completed run (on at least one after an aborted run); distinct non-trivial = distinct op-kind shapes with >= 1 completed run that applied >= 1 action while a non-exempt version existed")
    n = 20000 if tier == "thorough" else 1500
    fold(r, run_pool(_c02_worker, seed(), n, "c02"))
    wroot = workdir("c02ur")
    with Pool(NCPU) as pool:
        fold(r, pool.map(_c02_unreadable_worker, [(seed(), i, wroot) for i in range(200 if tier == "thorough" else 16)]))
    rmtree(wroot)
    r.assumptions = ["contents are located by hash anywhere in the tree (the statement does not pin the path)", "the archive file is never consulted by this oracle; last_common is derived from the driver's own snapshots", "names ending in .copia-tmp are outside the domain"]
    if tier == "thorough":
        asan_stage(r, "C02")
    finish(r, tier)


# ------------------------------------------------------------------ C06
def parse_archive(b):
    try:
        j = json.loads(b)
        ent = {}
        for p, fp in j["entries"].items():
            ent[p] = (bytes(fp["blake3"]).hex(), fp["ftype"])
        return {"format_version": j.get("format_version"), "epoch": j.get("epoch"), "entries": ent, "pair": j.get("root_pair_hash")}
    except Exception as e:  # noqa
        return None


def d8_touched(info):
    """Conflict-copy paths overwritten by this run's repeat conflict although they existed
    before with other content (the known finding recorded under C02)."""
    out = set()
    pre = {s: content_map(info["pre"][s]) for s in "AB"}
    post = {s: content_map(info["post"][s]) for s in "AB"}
    lc = info["last_common"]
    for s in "AB":
        for p, c in pre[s].items():
            m = CONFLICT_RE.match(p)
            if not m:
                continue
            basep = m.group(1)
            a0, b0 = pre["A"].get(basep), pre["B"].get(basep)
            if a0 is None or b0 is None or a0 == b0 or lc.get(basep) in (a0, b0):
                continue
            winner = post["A"].get(basep)
            loser = b0 if winner == a0 else a0
            if post[s].get(p) == loser and c != loser:
                out.add(p)
    return out


def c06_checks(sb, info, b3, swapped, viol, cnt, tainted):
    """(a) converged (b) archive == tree (e) winner rule, on one completed run."""
    post = {s: content_map(info["post"][s]) for s in "AB"}
    pre = {s: content_map(info["pre"][s]) for s in "AB"}
    lc = info["last_common"]
    brief = info["result"].brief()
    tainted |= d8_touched(info)
    for sd in "AB":
        if not os.path.isdir(sb.side(sd)):
            viol("C06|replica-root-missing-after-completed-run", {"side": sd, "run": brief})
    if post["A"] != post["B"]:
        diff = sorted(set(post["A"].items()) ^ set(post["B"].items()))[:6]
        viol("C06|diverged-after-completed-run", {"diff": diff, "run": brief})
    # (b)
    arch = parse_archive(info["post_arch"]) if info["post_arch"] is not None else None
    if arch is None:
        viol("C06|archive-missing-or-unparsable-after-completed-run", {"run": brief})
    else:
        root = sb.A
        tree = {}
        for p in post["A"]:
            h = b3.file(os.path.join(root, p))
            tree[p] = (h, "File")
        ent = {p: v for p, v in arch["entries"].items() if not is_staging(p)}
        if ent != tree:
            extra = sorted(set(ent) - set(tree))
            missing = sorted(set(tree) - set(ent))
            wrong = sorted(p for p in ent if p in tree and ent[p] != tree[p])
            if wrong and not extra and not missing and all(p in tainted for p in wrong):
                viol("C06|archive!=tree|stale-entry-for-conflict-copy-overwritten-by-repeat-conflict", {"wrong": wrong, "run": brief})
            else:
                kind = "extra-entries" if extra else ("missing-entries" if missing else "wrong-hash")
                viol("C06|archive!=tree|" + kind, {"extra": extra[:5], "missing": missing[:5], "wrong": wrong[:5], "run": brief})
        cnt("archive_entries_checked", len(tree))
    # (e) winner rule
    for p in sorted(set(pre["A"]) & set(pre["B"])):
        a0, b0 = pre["A"][p], pre["B"][p]
        if a0 == b0 or lc.get(p) in (a0, b0):
            continue
        ha = b3.file_of_snapshot(info, "A", p)
        hb = b3.file_of_snapshot(info, "B", p)
        if ha is None or hb is None:
            continue
        cnt("divergent_edits_checked")
        win_id, lose_id, lose_h = (a0, b0, hb) if ha >= hb else (b0, a0, ha)
        cname = "%s.conflict-vh-%s" % (p, lose_h[:12])
        pre_existing = cname in pre["A"] or cname in pre["B"]
        for s in "AB":
            if post[s].get(p) != win_id:
                viol("C06|winner-rule|path-does-not-hold-greater-blake3", {"path": p, "side": s, "run": brief})
            if post[s].get(cname) != lose_id:
                if pre_existing:
                    cnt("winner_rule_skipped_conflict_name_preexisting")
                else:
                    viol("C06|winner-rule|loser-not-at-conflict-name", {"path": p, "side": s, "expected_name": cname, "run": brief})


class B3x(B3):
    """B3 with a helper that hashes the pre-run content of a path: the driver saved copies."""

    def __init__(self):
        super().__init__()
        self.saved = {}

    def file_of_snapshot(self, info, side, p):
        return info.get("pre_b3", {}).get((side, p))


def _c06_worker(args):
    seedv, lo, hi, wroot = args
    res = {"evaluations": 0, "distinct": set(), "viol": [], "counters": {}, "samples": [], "inconclusive": 0}
    b3 = B3x()

    def cnt(k, n=1):
        res["counters"][k] = res["counters"].get(k, 0) + n

    for idx in range(lo, hi):
        hist0 = hist_for(seedv, idx, "c06")
        # (c) needs an immediate second run after every run: insert it in all three replays
        hist = []
        for st in hist0:
            hist.append(st)
            if st[0] == "s":
                hist.append(("s2",))
        finals = {}
        nontrivial = False
        for mode in ("plain", "mtimes", "swapped"):
            sb = Sandbox(os.path.join(wroot, "w%d-%s" % (lo, mode)))
            swapped = mode == "swapped"
            found = []
            tainted = set()

            def viol(sig, det):
                det["mode"] = mode
                found.append((sig, det))

            mt = None
            mrng = SplitMix.derive(seedv, "mt", idx)
            if mode == "mtimes":
                def mt(side, p, mrng=mrng):
                    k = mrng.below(5)
                    if k == 0:
                        return 1_000_000_000 + mrng.below(1000)
                    if k == 1:
                        return 4_000_000_000 + mrng.below(1000)
                    if k == 2:
                        return 1_700_000_000
                    if k == 3:
                        return (1_700_000_000 - (1 if side == "A" else 0), 500_000_000)
                    return 1_700_000_000 + (5 if side == "A" else -5)
            last_common = {}
            prev_completed = None
            aborted = False
            for i, st in enumerate(hist):
                if swapped:
                    st = swap_step(st)
                if st[0] in ("s", "s2"):
                    pre = sb.snaps()
                    pre_arch = sb.archive_bytes()
                    pre_b3 = {}
                    if st[0] == "s":
                        ca, cb = content_map(pre["A"]), content_map(pre["B"])
                        for p in set(ca) & set(cb):
                            if ca[p] != cb[p]:
                                pre_b3[("A", p)] = b3.file(os.path.join(sb.A, p))
                                pre_b3[("B", p)] = b3.file(os.path.join(sb.B, p))
                    # the immediate second run names the same directories another way in four histories out of five
                    spell = [None, "slash", "dot", "dslash", "rel"][idx % 5] if st[0] == "s2" else None
                    if spell:
                        cnt("second_runs_with_roots_spelled_differently")
                    r = bisync(sb, swapped=swapped, spell=spell)
                    post = sb.snaps()
                    note_losers(sb, pre, post)
                    info = {"pre": pre, "post": post, "pre_arch": pre_arch, "post_arch": sb.archive_bytes(), "result": r, "completed": completed(r), "stepno": i, "last_common": dict(last_common), "dry": False, "timed_out": r.timed_out, "pre_b3": pre_b3}
                    cnt("runs_observed")
                    if r.timed_out:
                        res["inconclusive"] += 1
                    if st[0] == "s":
                        prev_completed = info if info["completed"] else None
                        if info["completed"]:
                            cnt("runs_completed")
                            pc = plan_counts(r)
                            if pc and pc[1] > 0:
                                nontrivial = True
                                cnt("runs_with_conflicts")
                            if any(p in lc_p for lc_p in [last_common] for p in last_common if p not in content_map(pre["A"]) and p not in content_map(pre["B"])):
                                nontrivial = True
                                cnt("runs_with_both_deleted_path")
                            c06_checks(sb, info, b3, swapped, viol, cnt, tainted)
                        else:
                            aborted = True
                    else:
                        # (c) the immediate second run
                        if prev_completed is not None:
                            pc = plan_counts(r)
                            same = all({p: (x["id"], x["mtime_ns"], x["ino"]) for p, x in pre[s].items()} == {p: (x["id"], x["mtime_ns"], x["ino"]) for p, x in post[s].items()} for s in "AB")
                            # the comparison is modulo reserved staging names here as everywhere in C06: a second run whose
                            # every action concerns a `*.copia-tmp` leftover of an earlier ABORTED run (a file/directory
                            # clash leaves one behind; bisync takes it for a file, and a divergent edit applied last
                            # consumes it on one side) changes nothing at any other path - counted, not flagged
                            staged = {p for sd in "AB" for p in list(pre[sd]) + list(post[sd]) if is_staging(p)}
                            changed = {p for sd in "AB" for p in set(pre[sd]) | set(post[sd]) if (pre[sd].get(p) or {}).get("id") != (post[sd].get(p) or {}).get("id") or (p in pre[sd]) != (p in post[sd])}
                            if pc is not None and 0 < pc[0] <= len(staged) and changed <= staged and all({p: (x["id"], x["mtime_ns"], x["ino"]) for p, x in pre[s].items() if not is_staging(p)} == {p: (x["id"], x["mtime_ns"], x["ino"]) for p, x in post[s].items() if not is_staging(p)} for s in "AB"):
                                cnt("second_runs_that_acted_on_staging_leftovers_only")
                            elif pc is None or pc[0] != 0 or not same:
                                if tainted and pc is not None and pc[0] <= len(tainted) and same_content(pre, post):
                                    viol("C06|second-run-not-noop|stale-entry-for-conflict-copy-overwritten-by-repeat-conflict", {"plan": pc, "run": r.brief()})
                                else:
                                    viol("C06|second-run-not-noop", {"plan": pc, "trees_unchanged": same, "run": r.brief()})
                            cnt("second_runs_checked")
                            tainted.clear()
                    if info["completed"]:
                        ca, cb = content_map(post["A"]), content_map(post["B"])
                        last_common = {p: ca[p] for p in ca if p in cb and ca[p] == cb[p]}
                else:
                    apply_step(sb, st, mt)
            fin = sb.snaps()
            fa, fb = content_map(fin["A"]), content_map(fin["B"])
            if swapped:
                fa, fb = fb, fa
            finals[mode] = (fa, fb, aborted)
            for sig, det in found:
                det["history"] = hist_json(hist0)
                det["history_index"] = idx
                res["viol"].append((sig, det))
            sb.destroy()
        # (d) metamorphic
        base = finals["plain"]
        for mode, sigm in (("mtimes", "C06|outcome-depends-on-mtimes"), ("swapped", "C06|outcome-depends-on-argument-order")):
            o = finals[mode]
            if not base[2] and not o[2] and (o[0] != base[0] or o[1] != base[1]):
                da = sorted(set(o[0].items()) ^ set(base[0].items()))[:6]
                res["viol"].append((sigm, {"history": hist_json(hist0), "history_index": idx, "diff_A": da}))
        res["evaluations"] += 1
        if nontrivial:
            res["distinct"].add(shape_of(hist0))
        if len(res["samples"]) < 2:
            res["samples"].append({"history_index": idx, "steps": hist_json(hist0), "final_A": sorted(base[0])[:8]})
    b3.close()
    return res


def same_content(pre, post):
    return all(content_map(pre[s]) == content_map(post[s]) for s in "AB")


def c06(tier):
    build("cli", "vh")
    r = Result("C06", "exploration", "one evaluation = one history executed three times in fresh sandboxes (as generated; every mtime re-drawn; directories swapped consistently), with an immediate second run after every run; on every completed run: A == B as path->bytes, archive entries == {path -> BLAKE3(bytes), File} of the tree (BLAKE3 computed by the harness), second run prints `0 action(s)` and changes no (bytes, mtime_ns, inode), divergent edits resolve to greater-BLAKE3 at path and the other at path.conflict-vh-<12 hex>; final trees of the three replays coincide; distinct non-trivial = op-kind shapes with >= 1 conflict or >= 1 path deleted on both sides")
    n = 6000 if tier == "thorough" else 450
    fold(r, run_pool(_c06_worker, seed(), n, "c06"))
    r.assumptions = ["comparison is modulo reserved staging names", "metamorphic comparison is skipped for histories in which a run aborted (file/directory clashes)", "winner-rule check of the conflict-copy NAME is skipped when that name already existed before the run (collision, see known finding under C02)"]
    if tier == "thorough":
        asan_stage(r, "C06")
    finish(r, tier)


# ------------------------------------------------------------------ C07
FAULT_KINDS = ["remove", "empty", "truncate", "garbage", "json-empty-object", "json-array", "json-entries-list", "json-hash-string", "json-missing-field", "format_version-0", "format_version-2", "format_version-max", "foreign-pair", "only-bak", "only-tmp", "only-bak-and-tmp", "json-null", "pair-hash-edited"]


def inject_fault(sb, kind, rng, arg=None):
    """Mutate the archive file. Returns a description, or None if not applicable."""
    f = sb.archive_file()
    if f is None:
        return None
    orig = open(f, "rb").read()
    if kind == "remove":
        os.unlink(f)
        for suf in (".bak", ".tmp"):
            if os.path.exists(f + suf):
                os.unlink(f + suf)
        return "removed"
    if kind == "empty":
        open(f, "wb").close()
        return "zero-length"
    sb.prefault_archive_len = len(orig)
    if kind == "truncate":
        k = arg if arg is not None else rng.range(1, max(1, len(orig) - 1))
        if k >= len(orig):
            return None  # not a truncation of THIS archive
        open(f, "wb").write(orig[:k])
        return "truncated@%d/%d" % (k, len(orig))
    if kind == "garbage":
        open(f, "wb").write(rng.bytes(rng.range(1, 400)))
        return "garbage"
    try:
        j = json.loads(orig)
    except ValueError:  # (UnicodeDecodeError is one)
        # the archive is already damaged (an earlier fault of the same history, with no completed run in between):
        # kinds that rewrite fields of the JSON do not apply to it; the only-* kinds move the bytes as they are
        j = None
        if not kind.startswith("only-"):
            return None
    if kind == "json-empty-object":
        open(f, "w").write("{}")
    elif kind == "json-array":
        open(f, "w").write("[]")
    elif kind == "json-null":
        open(f, "w").write("null")
    elif kind == "json-entries-list":
        j["entries"] = list(j["entries"].items())
        json.dump(j, open(f, "w"))
    elif kind == "json-hash-string":
        for p in j["entries"]:
            j["entries"][p]["blake3"] = bytes(j["entries"][p]["blake3"]).hex()
        json.dump(j, open(f, "w"))
    elif kind == "json-missing-field":
        del j[rng.pick(["format_version", "root_pair_hash", "epoch", "host_id", "entries"])]
        json.dump(j, open(f, "w"))
    elif kind.startswith("format_version-"):
        j["format_version"] = {"0": 0, "2": 2, "max": 4294967295}[kind.split("-")[1]]
        json.dump(j, open(f, "w"))
    elif kind == "pair-hash-edited":
        h = j["root_pair_hash"]
        j["root_pair_hash"] = ("0" if h[0] != "0" else "1") + h[1:]
        json.dump(j, open(f, "w"))
    elif kind == "foreign-pair":
        # a real archive produced by copia for another pair (A, B2) with the same A content
        b2 = os.path.join(sb.root, "B2")
        rmtree(b2)
        copy_tree(sb.B, b2)
        r = run(["bisync", sb.A, b2], sb.env())
        others = [x for x in os.listdir(sb.archive_dir()) if x.endswith(".json") and os.path.join(sb.archive_dir(), x) != f]
        # undo whatever that run did to A: not needed for the verdict (snapshots are taken afterwards)
        if not others:
            return None
        shutil.copyfile(os.path.join(sb.archive_dir(), others[0]), f)
        for o in os.listdir(sb.archive_dir()):
            if not o.startswith(os.path.basename(f)):
                os.unlink(os.path.join(sb.archive_dir(), o))
        rmtree(b2)
    elif kind in ("only-bak", "only-tmp", "only-bak-and-tmp"):
        os.unlink(f)
        if "bak" in kind:
            open(f + ".bak", "wb").write(orig)
        elif os.path.exists(f + ".bak"):
            os.unlink(f + ".bak")
        if "tmp" in kind:
            open(f + ".tmp", "wb").write(orig)
    else:
        return None
    return kind


def c07_case(sb, rng, kind, arg=None):
    """Returns (nontrivial, violations[(sig, detail)], desc) for one (tree, fault) run."""
    viol = []
    # reach a state with a real archive, then make the unfaulted plan contain deletes
    paths = rng.shuffle([p for p in PATH_POOL if p not in ("c", "c/x")])[: rng.range(3, 6)]
    for p in paths:
        c = b"v0:" + p.encode() if rng.chance(2, 3) else rng.pick(SHARED_CONTENTS)
        for s in "AB":
            write_file(os.path.join(sb.side(s), p), c)
    r0 = bisync(sb)
    if not completed(r0):
        return False, [], "setup-run-failed"
    if rng.chance(1, 2):
        bisync(sb)  # so that a .bak exists
    for p in paths:
        k = rng.below(7)
        side = "A" if rng.chance(1, 2) else "B"
        full = os.path.join(sb.side(side), p)
        if k < 3:
            os.unlink(full)  # one-sided delete: a trusted base would plan DeleteX
        elif k == 3:
            write_file(full, b"mod:" + p.encode())
        elif k == 4:
            os.unlink(full)
            write_file(os.path.join(sb.side("B" if side == "A" else "A"), p), b"mod2:" + p.encode())
    if rng.chance(1, 2):
        write_file(os.path.join(sb.A, "only-a"), b"only-a")
    if rng.chance(1, 2):
        # size and time say "same", the bytes do not (cp -p, rsync -t, touch -r): without a record only the bytes count
        for sd, body in (("A", b"twin-a-" + b"x" * 40), ("B", b"twin-b-" + b"y" * 40)):
            write_file(os.path.join(sb.side(sd), "d/twin"), body)
            os.utime(os.path.join(sb.side(sd), "d/twin"), ns=(1_650_000_000_123_456_789, 1_650_000_000_123_456_789))
    ctl = bisync(sb, dry=True)
    planned_deletes = sum(1 for ln in ctl.stdout.splitlines() if ln.startswith("Delete"))
    desc = inject_fault(sb, kind, rng, arg)
    if desc is None:
        return False, [], "fault-not-applicable"
    pre = sb.snaps()
    dry = bisync(sb, dry=True)
    if any(ln.startswith("Delete") for ln in dry.stdout.splitlines()):
        viol.append(("C07|dry-run-plans-delete|" + kind, {"fault": desc, "stdout": dry.stdout[-500:]}))
    if "SAFE no-base mode" not in dry.stderr:
        viol.append(("C07|no-safe-mode-banner|" + kind, {"fault": desc, "stderr": dry.stderr[-300:]}))
    r = bisync(sb)
    post = sb.snaps()
    preA, preB = content_map(pre["A"]), content_map(pre["B"])
    postA, postB = content_map(post["A"]), content_map(post["B"])
    for s, pr, po in (("A", preA, postA), ("B", preB, postB)):
        gone = sorted(p for p in pr if p not in po)
        if gone:
            viol.append(("C07|path-removed|" + kind, {"fault": desc, "side": s, "paths": gone[:5], "run": r.brief(), "control_planned_deletes": planned_deletes}))
    if completed(r):
        allA, allB = set(postA.values()), set(postB.values())
        for s, pr in (("A", preA), ("B", preB)):
            for p, c in pr.items():
                if c not in allA or c not in allB:
                    viol.append(("C07|version-not-on-both-sides|" + kind, {"fault": desc, "side": s, "path": p, "run": r.brief()}))
                    break
    elif not r.timed_out:
        viol.append(("C07|run-did-not-complete|" + kind, {"fault": desc, "run": r.brief()}))
    return planned_deletes > 0, viol, desc


def c07_lossy_pair(wroot, rng, tag):
    """Two directory pairs whose paths differ only in a byte that is not valid UTF-8, one HOME.
    Pair 1 is synced; pair 2 was never synced, so its run has no recorded state of its own and must
    not delete. Returns violations."""
    viol = []
    root = os.path.join(wroot, "lossy%s" % tag)
    rmtree(root)
    home = os.path.join(root, "home")
    os.makedirs(home)
    b1, b2 = rng.pick([("\udcff", "\udcfe"), ("\udc80", "\udc81"), ("x\udcf0y", "x\udcf1y")])
    pairs = []
    for b in (b1, b2):
        a_, b_ = os.path.join(root, "proj" + b, "A"), os.path.join(root, "proj" + b, "B")
        os.makedirs(a_)
        os.makedirs(b_)
        pairs.append((a_, b_))
    content = b"shared-by-name-only " + rng.bytes(4).hex().encode()
    env = base_env(home)
    for side in pairs[0]:
        write_file(os.path.join(side, "doc.txt"), content)
    r1 = run(["bisync", pairs[0][0], pairs[0][1]], env)
    if "Bidirectional sync complete" not in r1.stdout:
        return None
    one = rng.pick([0, 1])
    write_file(os.path.join(pairs[1][one], "doc.txt"), content)
    write_file(os.path.join(pairs[1][1 - one], "other.txt"), b"other")
    r2 = run(["bisync", pairs[1][0], pairs[1][1]], env)
    for side in pairs[1]:
        for fn, data in (("doc.txt", content), ("other.txt", b"other")):
            try:
                ok = open(os.path.join(side, fn), "rb").read() == data
            except OSError:
                ok = False
            if not ok:
                viol.append(("C07|path-removed|pair-differs-only-in-non-utf8-byte", {"file": fn, "side": os.path.basename(side), "run": r2.brief()}))
    if "SAFE no-base mode" not in r2.stderr:
        viol.append(("C07|no-safe-mode-banner|pair-differs-only-in-non-utf8-byte", {"stderr": r2.stderr[-200:]}))
    rmtree(root)
    return viol


def c07_repointed_links(wroot, rng, tag):
    """`bisync A B` where A and B are symbolic links: synced while they point at (x1, y1), then re-pointed
    to (x2, y2) - a different pair of directories under the same two names. The recorded state belongs to
    the first pair; the run on the second must not delete or overwrite on its strength."""
    viol = []
    root = os.path.join(wroot, "links%s" % tag)
    rmtree(root)
    home = os.path.join(root, "home")
    os.makedirs(home)
    d = {}
    for nm in ("x1", "y1", "x2", "y2"):
        d[nm] = os.path.join(root, nm)
        os.makedirs(d[nm])
    A, B = os.path.join(root, "A"), os.path.join(root, "B")
    os.symlink("x1", A)
    os.symlink("y1", B)
    env = base_env(home)
    shared = b"recorded content " + rng.bytes(4).hex().encode()
    for nm in ("x1", "y1"):
        write_file(os.path.join(d[nm], "report.txt"), shared)
        write_file(os.path.join(d[nm], "notes"), b"notes v0")
    r1 = run(["bisync", A, B], env)
    if "Bidirectional sync complete" not in r1.stdout:
        return None
    which = rng.pick(["both", "A", "B", "relative-names-other-cwd", "relative-names-other-cwd"])
    cwd2 = None
    argv2 = ["bisync", A, B]
    if which == "relative-names-other-cwd":
        # the same two relative names, resolved from another working directory
        rmtree(root)
        os.makedirs(home)
        for nm in ("p1/A", "p1/B", "p2/A", "p2/B"):
            os.makedirs(os.path.join(root, nm))
        for nm in ("p1/A", "p1/B"):
            write_file(os.path.join(root, nm, "report.txt"), shared)
            write_file(os.path.join(root, nm, "notes"), b"notes v0")
        r1 = run(["bisync", "A", "B"], env, cwd=os.path.join(root, "p1"))
        if "Bidirectional sync complete" not in r1.stdout:
            return None
        cwd2 = os.path.join(root, "p2")
        argv2 = ["bisync", rng.pick(["A", "./A", "A/"]), rng.pick(["B", "./B", "B/."])]
        A, B = os.path.join(cwd2, "A"), os.path.join(cwd2, "B")
    if which in ("both", "A"):
        os.unlink(A)
        os.symlink("x2", A)
    if which in ("both", "B"):
        os.unlink(B)
        os.symlink("y2", B)
    a_dir, b_dir = os.path.realpath(A), os.path.realpath(B)
    one, other = (a_dir, b_dir) if rng.chance(1, 2) else (b_dir, a_dir)
    # one side holds a file equal to the recorded content that the other side lacks; `notes` differs
    write_file(os.path.join(one, "report.txt"), shared)
    if os.path.exists(os.path.join(other, "report.txt")):
        os.unlink(os.path.join(other, "report.txt"))
    write_file(os.path.join(one, "notes"), b"notes v1 on one side")
    write_file(os.path.join(other, "notes"), b"notes v2 on the other side")
    pre = {"A": content_map(snapshot(a_dir)), "B": content_map(snapshot(b_dir))}
    r2 = run(argv2, env, cwd=cwd2)
    post = {"A": content_map(snapshot(a_dir)), "B": content_map(snapshot(b_dir))}
    label = {"repointed": which, "run": r2.brief()}
    for sd in "AB":
        gone = sorted(p for p in pre[sd] if p not in post[sd])
        if gone:
            viol.append(("C07|path-removed|roots-are-links-repointed-to-another-pair", dict(label, side=sd, paths=gone)))
    if "Bidirectional sync complete" in r2.stdout or r2.code == 1:
        allA, allB = set(post["A"].values()), set(post["B"].values())
        for sd in "AB":
            for p, c in pre[sd].items():
                if c not in allA or c not in allB:
                    viol.append(("C07|version-not-on-both-sides|roots-are-links-repointed-to-another-pair", dict(label, side=sd, path=p)))
    if "SAFE no-base mode" not in r2.stderr:
        viol.append(("C07|no-safe-mode-banner|roots-are-links-repointed-to-another-pair", dict(label, stderr=r2.stderr[-200:])))
    rmtree(root)
    return viol


def c07_shared_root(wroot, rng, tag):
    """Two pairs that share ONE directory in the same argument position: (laptop, server) is synced, then
    (desktop, server) runs for the first time. Its own recorded state does not exist; the other pair's must
    not be used."""
    viol = []
    root = os.path.join(wroot, "shared%s" % tag)
    rmtree(root)
    home = os.path.join(root, "home")
    os.makedirs(home)
    d = {nm: os.path.join(root, nm) for nm in ("laptop", "desktop", "server")}
    for v in d.values():
        os.makedirs(v)
    env = base_env(home)
    pos = rng.pick(["second", "first"])
    pair = (lambda x: (d[x], d["server"])) if pos == "second" else (lambda x: (d["server"], d[x]))
    shared = b"recorded content " + rng.bytes(4).hex().encode()
    for nm in ("laptop", "server"):
        write_file(os.path.join(d[nm], "docs/report.txt"), shared)
        write_file(os.path.join(d[nm], "notes.txt"), b"notes v0")
        write_file(os.path.join(d[nm], "shared.cfg"), b"cfg of the first pair")
    r1 = run(["bisync", *pair("laptop")], env)
    if "Bidirectional sync complete" not in r1.stdout:
        return None
    if rng.chance(1, 2):
        run(["bisync", *pair("laptop")], env)
    write_file(os.path.join(d["desktop"], "shared.cfg"), b"cfg of the desktop")
    write_file(os.path.join(d["desktop"], "only-desktop"), b"d")
    pre = {nm: content_map(snapshot(d[nm])) for nm in ("desktop", "server")}
    r2 = run(["bisync", *pair("desktop")], env)
    post = {nm: content_map(snapshot(d[nm])) for nm in ("desktop", "server")}
    label = {"shared_root_position": pos, "run": r2.brief()}
    for nm in ("desktop", "server"):
        gone = sorted(p for p in pre[nm] if p not in post[nm])
        if gone:
            viol.append(("C07|path-removed|first-run-of-a-pair-sharing-one-root-with-a-synced-pair", dict(label, side=nm, paths=gone)))
    alls = [set(post[nm].values()) for nm in ("desktop", "server")]
    for nm in ("desktop", "server"):
        for p, c in pre[nm].items():
            if any(c not in a for a in alls):
                viol.append(("C07|version-not-on-both-sides|first-run-of-a-pair-sharing-one-root-with-a-synced-pair", dict(label, side=nm, path=p)))
    if "SAFE no-base mode" not in r2.stderr:
        viol.append(("C07|no-safe-mode-banner|first-run-of-a-pair-sharing-one-root-with-a-synced-pair", dict(label, stderr=r2.stderr[-200:])))
    rmtree(root)
    return viol


def _c07_worker(args):
    seedv, lo, hi, wroot, sweep = args
    res = {"evaluations": 0, "distinct": set(), "viol": [], "counters": {}, "samples": [], "inconclusive": 0}

    def cnt(k, n=1):
        res["counters"][k] = res["counters"].get(k, 0) + n

    if not sweep:
        v = c07_lossy_pair(wroot, SplitMix.derive(seedv, "c07lossy", lo), "%d" % lo)
        if v is not None:
            res["evaluations"] += 1
            cnt("runs[pair-differs-only-in-non-utf8-byte]")
            res["distinct"].add("lossy-pair|%d" % (lo % 5))
            for sig, det in v:
                res["viol"].append((sig, det))
        v = c07_repointed_links(wroot, SplitMix.derive(seedv, "c07links", lo), "%d" % lo)
        if v is not None:
            res["evaluations"] += 1
            cnt("runs[roots-are-links-repointed-to-another-pair]")
            res["distinct"].add("repointed-links|%d" % (lo % 5))
            for sig, det in v:
                res["viol"].append((sig, det))
        v = c07_shared_root(wroot, SplitMix.derive(seedv, "c07shared", lo), "%d" % lo)
        if v is not None:
            res["evaluations"] += 1
            cnt("runs[first-run-of-a-pair-sharing-one-root-with-a-synced-pair]")
            res["distinct"].add("shared-root|%d" % (lo % 5))
            for sig, det in v:
                res["viol"].append((sig, det))
    for idx in range(lo, hi):
        rng = SplitMix.derive(seedv, "c07", idx)
        if sweep:
            # idx encodes (tree number, truncation offset); tree is derived from the tree number only
            tree_no, off = idx // 4096, idx % 4096
            rng = SplitMix.derive(seedv, "c07sweep", tree_no)
            kind, arg = "truncate", off
        else:
            kind, arg = FAULT_KINDS[idx % len(FAULT_KINDS)], None
        sb = Sandbox(os.path.join(wroot, "w%d" % lo))
        nontrivial, viol, desc = c07_case(sb, rng, kind, arg)
        if desc in ("setup-run-failed", "fault-not-applicable"):
            cnt("skipped[%s]" % desc)
            sb.destroy()
            continue
        res["evaluations"] += 1
        cnt("runs[%s]" % kind)
        if nontrivial:
            cnt("runs_where_unfaulted_archive_planned_deletes")
            res["distinct"].add("%s|%d" % (kind if not sweep else "truncate-sweep", idx if sweep else idx // len(FAULT_KINDS) % 7))
        for sig, det in viol:
            det["case_index"] = idx
            det["sweep"] = sweep
            res["viol"].append((sig, det))
        if len(res["samples"]) < 1:
            res["samples"].append({"case_index": idx, "fault": desc, "nontrivial": nontrivial})
        sb.destroy()
    return res


def c07(tier):
    build("cli", "vh")
    r = Result("C07", "fault_enumeration", "one evaluation = one (tree pair with a real archive and pending one-sided deletes, archive fault) followed by a dry run and a real run; faults: 18 kinds incl. removal, zero length, garbage, wrong-shape JSON, format_version != 1, foreign pair's real archive, only .bak/.tmp left, plus a truncation sweep at EVERY byte offset of real archives, pairs differing in a non-UTF-8 byte, roots that are links re-pointed to another pair, relative roots from another cwd, pairs sharing one root; verdict from snapshots: no path removed on either side, every pre-run content on both sides after, SAFE banner, no Delete* line; distinct non-trivial = (fault kind or truncation offset, tree) where a control dry run with the unfaulted archive planned >= 1 delete")
    th = tier == "thorough"
    n = (800 if th else 60) * len(FAULT_KINDS)
    fold(r, run_pool(_c07_worker, seed(), n, "c07", extra=(False,)))
    # truncation sweeps: determine the archive size of tree t by building it once
    ntrees = 20 if th else 2
    parts = []
    wroot = workdir("c07s")
    jobs = []
    for t in range(ntrees):
        sb = Sandbox(os.path.join(wroot, "probe"))
        rng = SplitMix.derive(seed(), "c07sweep", t)
        # replicate the setup to learn the archive length (the fault itself is a no-op truncate at len)
        nt, v, d = c07_case(sb, rng, "truncate", 10 ** 9)
        ln = getattr(sb, "prefault_archive_len", 0)  # length of the archive the fault will be applied to
        sb.destroy()
        ln = min(ln, 4095)
        r.count("truncation_sweep_archive_bytes", ln)
        step = 1 if ln <= 2048 or th else 1
        offs = list(range(0, ln, step))
        per = max(1, len(offs) // (NCPU * 2))
        for i in range(0, len(offs), per):
            chunk = offs[i:i + per]
            jobs.append((seed(), t * 4096 + chunk[0], t * 4096 + chunk[-1] + 1, wroot, True))
    with Pool(NCPU) as pool:
        parts = pool.map(_c07_worker, jobs)
    rmtree(wroot)
    fold(r, parts)
    r.exhaustive = False
    r.extra["truncation_sweep"] = {"trees": ntrees, "every_offset": True}
    r.assumptions = ["file/directory clashes are kept out of these trees so that every run can complete", "the truncation sweep is complete per swept archive (every byte offset); fault kinds are sampled over trees"]
    if tier == "thorough":
        asan_stage(r, "C07")
    finish(r, tier)


# ------------------------------------------------------------------ C08
def c08_scenarios():
    Z, Y = b"Z-content", b"Y-content"
    big = (b"0123456789abcdef" * 4096) * 10  # 640 KiB
    S = {}
    S["create-A"] = [("w", "A", "keep", Z), ("w", "B", "keep", Z), ("s",), ("w", "A", "new", Y)]
    S["create-B-nested"] = [("w", "A", "keep", Z), ("w", "B", "keep", Z), ("s",), ("w", "B", "d/e/new", Y)]
    S["propagate-AtoB"] = [("w", "A", "f", Z), ("w", "B", "f", Z), ("s",), ("w", "A", "f", Y)]
    S["propagate-BtoA"] = [("w", "A", "f", Z), ("w", "B", "f", Z), ("s",), ("w", "B", "f", Y)]
    S["delete-A"] = [("w", "A", "f", Z), ("w", "B", "f", Z), ("w", "A", "g", Y), ("w", "B", "g", Y), ("s",), ("d", "B", "f")]
    S["delete-B"] = [("w", "A", "f", Z), ("w", "B", "f", Z), ("w", "A", "g", Y), ("w", "B", "g", Y), ("s",), ("d", "A", "f")]
    S["conflict-both-changed"] = [("w", "A", "f", Z), ("w", "B", "f", Z), ("s",), ("w", "A", "f", b"a-edit"), ("w", "B", "f", b"b-edit")]
    # the earlier conflict-copy was edited by the user, then the old loser comes back against fresh content
    # (it loses again for about half of the fresh contents): the run under test needs a numbered copy name
    for side in "AB":
        for fresh in (b"n1", b"n2", b"n3", b"n4"):
            S["repeat-conflict-after-edited-copy-%s-%s" % (side, fresh.decode())] = [("w", "A", "f", b"base"), ("w", "B", "f", b"base"), ("s",), ("w", "A", "f", b"a1"), ("w", "B", "f", b"b1"), ("s",), ("wc", side, 0, b"user-edited-conflict-copy"), ("rc", side, 0, fresh)]
    S["delete-vs-modify"] = [("w", "A", "f", Z), ("w", "B", "f", Z), ("s",), ("d", "A", "f"), ("w", "B", "f", b"b-mod")]
    S["first-run-no-archive"] = [("w", "A", "only-a", Z), ("w", "B", "only-b", Y), ("w", "A", "both", b"a"), ("w", "B", "both", b"b"), ("w", "A", "same", Z), ("w", "B", "same", Z)]
    S["five-paths"] = [("w", "A", "p1", b"1"), ("w", "B", "p1", b"1"), ("w", "A", "p2", b"2"), ("w", "B", "p2", b"2"), ("w", "A", "p3", b"3"), ("w", "B", "p3", b"3"), ("w", "A", "p4", b"4"), ("w", "B", "p4", b"4"), ("s",), ("w", "A", "p1", b"1a"), ("w", "B", "p2", b"2b"), ("d", "A", "p3"), ("w", "A", "p4", b"4a"), ("w", "B", "p4", b"4b"), ("w", "B", "d/p5", b"5")]
    S["readonly-files"] = [("w", "A", "f", Z), ("w", "B", "f", Z), ("w", "A", "g", Y), ("w", "B", "g", Y), ("w", "A", "h", b"h"), ("w", "B", "h", b"h"), ("s",), ("w", "A", "f", b"f-new"), ("ro", "A", "f"), ("ro", "B", "f"), ("d", "A", "g"), ("ro", "B", "g"), ("w", "A", "h", b"h-a"), ("w", "B", "h", b"h-b"), ("ro", "A", "h"), ("ro", "B", "h")]
    S["hardlinked-destinations"] = [("w", "A", "f", Z), ("w", "B", "f", Z), ("w", "A", "big", big), ("w", "B", "big", big), ("w", "A", "g", Y), ("w", "B", "g", Y), ("s",), ("hl", "B", "f"), ("hl", "B", "big"), ("hl", "A", "g"), ("w", "A", "f", b"f-new"), ("w", "A", "big", big[::-1]), ("w", "B", "g", b"g-new")]
    S["big-file-640K"] = [("w", "A", "keep", Z), ("w", "B", "keep", Z), ("s",), ("w", "A", "big", big)]
    big15 = (b"fedcba9876543210" * 4096) * 24  # 1.5 MiB
    S["big-file-1.5M-create"] = [("w", "A", "keep", Z), ("w", "B", "keep", Z), ("s",), ("w", "B", "dir/big15", big15)]
    S["big-file-1.5M-replace"] = [("w", "A", "big15", big15), ("w", "B", "big15", big15), ("s",), ("w", "A", "big15", big15[::-1])]
    for ln in (250, 255):
        S["name-of-%d-bytes" % ln] = [("w", "A", "keep", Z), ("w", "B", "keep", Z), ("s",), ("w", "A", "n" * ln, big[:300000])]
    S["big-replace"] = [("w", "A", "big", big), ("w", "B", "big", big), ("s",), ("w", "B", "big", big[::-1])]
    # a dozen one-sided changes in one run (more actions than any plausible job count, the first of them big): whatever
    # delivers several files at once must still stop - or report - at the first one that fails on a leftover of the
    # killed run, and the re-runs must still converge on the uninterrupted result
    twelve = [("w", s_, "m%02d" % i, b"v1 of m%02d " % i * 40) for i in range(12) for s_ in "AB"]
    S["twelve-one-sided-changes"] = twelve + [("s",)] + [("w", "A", "m%02d" % i, (b"v2 of m%02d " % i) * (30000 if i == 1 else 60)) for i in range(12)]
    # K1 (repaired, see known_findings.json): a conflict-copy name of 236..245 bytes. A kill while that copy is staged
    # leaves `<name>.copia-tmp` (246..255 bytes) behind; the next run sees it as an ordinary file and has to deliver it,
    # which cannot be staged at `<name>.copia-tmp.copia-tmp`. The host is "vh": `.conflict-vh-<12 hex>` adds 25 bytes.
    for ln in (211, 215, 220):
        S["conflict-copy-name-of-%d-bytes" % (ln + 25)] = [("w", "A", "c" * ln, Z), ("w", "B", "c" * ln, Z), ("s",), ("w", "A", "c" * ln, b"a-edit" * 9000), ("w", "B", "c" * ln, b"b-edit" * 9000)]
    # the same leftover as a state the trees come with (a killed earlier run), next to an in-sync file of that name:
    # the run under test has to deliver a 250-byte name, and is itself killed at every point while doing so
    S["leftover-staging-of-240-byte-name"] = [("w", "A", "l" * 240, Z), ("w", "B", "l" * 240, Z), ("s",), ("w", "B", "l" * 240 + STAGING, big[:100000]), ("w", "A", "other", Y)]
    return S


def save_state(sb, save):
    """One `cp -a` invocation for all parts, so that hard links between a replica and links/ survive."""
    rmtree(save)
    os.makedirs(save)
    parts = [os.path.join(sb.root, d) for d in ("A", "B", "home", "links") if os.path.lexists(os.path.join(sb.root, d))]
    r = subprocess.run(["cp", "-a", "--"] + parts + [save + "/"], capture_output=True, text=True)
    if r.returncode != 0:
        raise OSError("cp -a: " + r.stderr[-300:])


def restore_state(sb, save):
    for d in ("A", "B", "home", "links"):
        rmtree(os.path.join(sb.root, d))
    parts = [os.path.join(save, d) for d in sorted(os.listdir(save))]
    r = subprocess.run(["cp", "-a", "--"] + parts + [sb.root + "/"], capture_output=True, text=True)
    if r.returncode != 0:
        raise OSError("cp -a: " + r.stderr[-300:])


def trace_monitor(evs, sb, label):
    """(c) ordering over one process trace. Returns [(sig, detail)]."""
    out = []
    arch_dir = sb.archive_dir()
    arch_rename = None
    for i, e in enumerate(evs):
        if e.op == "rename" and e.ret == 0 and e.p2 and e.p2.startswith(arch_dir) and e.p2.endswith(".json") and e.p1.endswith(".json.tmp"):
            arch_rename = i
            break
    data_renames = [(i, e) for i, e in enumerate(evs) if e.op == "rename" and e.ret == 0 and e.p1 and e.p1.endswith(STAGING) and (e.p2.startswith(sb.A + "/") or e.p2.startswith(sb.B + "/"))]
    if arch_rename is None:
        return out, {"archive_rename_seen": False, "data_renames": len(data_renames)}
    # archive tmp must itself be synced before its rename
    tmpname = evs[arch_rename].p1
    last_w = max([i for i, e in enumerate(evs[:arch_rename]) if e.op in ("write", "pwrite", "writev") and e.p1 == tmpname] or [-1])
    if not any(e.op in ("fsync", "fdatasync") and e.ret == 0 and e.p1 == tmpname for e in evs[last_w + 1:arch_rename]):
        out.append(("C08|archive-tmp-not-synced-before-rename", {"scenario": label}))
    for i, e in data_renames:
        if i > arch_rename:
            out.append(("C08|data-renamed-after-archive", {"scenario": label, "path": e.p2}))
            continue
        lw = max([j for j, x in enumerate(evs[:i]) if x.op in ("write", "pwrite", "writev", "copy_file_range", "sendfile", "splice", "openw", "ftruncate") and x.p1 == e.p1] or [-1])
        synced = any(x.op in ("fsync", "fdatasync") and x.ret == 0 and x.p1 == e.p1 for x in evs[lw + 1:i]) or any(x.op in ("fsync", "fdatasync") and x.ret == 0 and x.p1 == e.p2 for x in evs[i + 1:arch_rename])
        if not synced:
            out.append(("C08|data-not-flushed-before-archive-rename", {"scenario": label, "path": os.path.relpath(e.p2, sb.root)}))
    return out, {"archive_rename_seen": True, "data_renames": len(data_renames)}


def _c08_worker(args):
    seedv, lo, hi, wroot, names = args
    res = {"evaluations": 0, "distinct": set(), "viol": [], "counters": {}, "samples": [], "inconclusive": 0}

    def cnt(k, n=1):
        res["counters"][k] = res["counters"].get(k, 0) + n

    scen = c08_scenarios()
    for idx in range(lo, hi):
        name = names[idx]
        if name in scen:
            setup = scen[name]
        else:
            # generated: a random history whose last run is the run under test
            h = gen_history(SplitMix.derive(seedv, "c08", name), clash_ok=False)
            while h and h[-1][0] == "s":
                h.pop()
            setup = h
        root = os.path.join(wroot, "s%d" % idx)
        sb = Sandbox(root)
        save = root + ".save"
        lc = {}
        for st in setup:
            if st[0] == "s":
                pre_s = sb.snaps()
                r = bisync(sb)
                note_losers(sb, pre_s, sb.snaps())
                if completed(r):
                    sn = sb.snaps()
                    ca, cb = content_map(sn["A"]), content_map(sn["B"])
                    lc = {p: ca[p] for p in ca if p in cb and ca[p] == cb[p]}
            else:
                apply_step(sb, st)
        save_state(sb, save)
        pre = sb.snaps()
        pre_arch = sb.archive_bytes()
        # deletes the run under test announces: such a path may be absent after a kill even when the uninterrupted
        # run ends with the path present again (a divergent edit applied later in the same run re-creates its
        # conflict-copy under that name): the delete is "a version the run was delivering"
        planned_del = {"A": set(), "B": set()}
        for act, pth in parse_dry_lines(bisync(sb, dry=True).stdout):
            if act in ("DeleteA", "DeleteB"):
                planned_del[act[-1]].add(pth)
        log = os.path.join(root, "trace")
        # reference run
        env = shim_env(sb.env(), log=log)
        rref = run(["bisync", sb.A, sb.B], env)
        if not completed(rref):
            cnt("scenarios_skipped_reference_did_not_complete")
            sb.destroy()
            rmtree(save)
            continue
        ref = sb.snaps()
        ref_arch = sb.archive_bytes()
        refA, refB = content_map(ref["A"]), content_map(ref["B"])
        tr = read_traces(log)
        evs = [e for pid in tr for e in tr[pid]]
        N = sum(1 for e in evs if e.op in MUTATING)
        v, st_ = trace_monitor(evs, sb, name)
        for sig, det in v:
            det["k"] = "uninterrupted"
            res["viol"].append((sig, det))
        cnt("scenarios")
        cnt("reference_mutating_calls", N)
        cnt("data_renames_in_reference", st_["data_renames"])
        window_after_last_data = window_bak = 0
        k = 0
        post_states = set()
        while True:
            k += 1
            if k > 600:
                res["inconclusive"] += 1
                break
            restore_state(sb, save)
            clear_traces(log)
            env = shim_env(sb.env(), log=log, kill_at=k, kill_class="mutating")
            r = run(["bisync", sb.A, sb.B], env)
            tr = read_traces(log)
            evs = [e for pid in tr for e in tr[pid]]
            killed = any(e.op == "KILL" for e in evs)
            if not killed:
                if r.signal is not None or r.timed_out:
                    res["inconclusive"] += 1
                break
            res["evaluations"] += 1
            kev = [e for e in evs if e.op == "KILL"][0]
            cnt("kills[%s]" % kev.extra)
            now = sb.snaps()
            arch_now = sb.archive_bytes()
            label = {"scenario": name, "k": k, "killed_before": "%s %s" % (kev.extra, os.path.relpath(kev.p1, root) if kev.p1 and kev.p1.startswith(root) else kev.p1)}
            # (a) complete old-or-new bytes at every non-staging path
            for s, refm in (("A", refA), ("B", refB)):
                prem = content_map(pre[s])
                nowm = content_map(now[s])
                for p in set(prem) | set(nowm) | set(refm):
                    cur = nowm.get(p)
                    allowed = {prem.get(p), refm.get(p)} | ({None} if p in planned_del[s] else set())
                    if cur not in allowed:
                        res["viol"].append(("C08|partial-or-foreign-bytes-after-kill", dict(label, side=s, path=p, holds=cur, pre=prem.get(p), new=refm.get(p))))
            # (b) archive in {old, absent, new}
            if arch_now not in (pre_arch, None, ref_arch):
                res["viol"].append(("C08|archive-neither-old-nor-absent-nor-new", dict(label, len=len(arch_now))))
            # new archive visible => every file it describes is in place on both sides
            if arch_now is not None and arch_now == ref_arch and ref_arch != pre_arch:
                if content_map(now["A"]) != refA or content_map(now["B"]) != refB:
                    res["viol"].append(("C08|new-archive-visible-before-data-in-place", label))
            # (c) ordering on the killed trace
            v, st2 = trace_monitor(evs, sb, name)
            for sig, det in v:
                det.update(label)
                res["viol"].append((sig, det))
            # windows that matter
            renames_done = [e for e in evs if e.op == "rename" and e.ret == 0]
            data_done = sum(1 for e in renames_done if e.p1.endswith(STAGING))
            if data_done == st_["data_renames"] and not st2["archive_rename_seen"]:
                window_after_last_data += 1
            if any(e.p2.endswith(".json.bak") for e in renames_done) and not st2["archive_rename_seen"]:
                window_bak += 1
            post_states.add((tuple(sorted(content_map(now["A"], staging=True).items())), tuple(sorted(content_map(now["B"], staging=True).items())), arch_now))
            # (d) recovery
            done = False
            for attempt in range(3):
                rr = bisync(sb)
                cnt("recovery_runs")
                if completed(rr):
                    done = True
                    break
            fin = sb.snaps()
            finA, finB = content_map(fin["A"]), content_map(fin["B"])
            if not done:
                sig = "C08|recovery-did-not-complete-in-3-runs"
                # one specific, recorded cause (known_findings.json): the killed run left `<name>.copia-tmp` behind,
                # bisync treats it as an ordinary file, and delivering IT needs `<name>.copia-tmp.copia-tmp`, which is
                # longer than NAME_MAX - every later run stops with ENAMETOOLONG
                too_long = [p for sd in "AB" for p in fin[sd] if is_staging(p) and len(os.path.basename(p).encode()) + len(STAGING) > 255]
                if "File name too long" in rr.stderr and too_long:
                    sig += "|leftover-staging-name-too-long-to-be-delivered"
                res["viol"].append((sig, dict(label, last=rr.brief())))
            else:
                if finA != refA or finB != refB:
                    dA = sorted(set(finA.items()) ^ set(refA.items()))[:4]
                    dB = sorted(set(finB.items()) ^ set(refB.items()))[:4]
                    res["viol"].append(("C08|recovery-differs-from-uninterrupted-run", dict(label, diffA=dA, diffB=dB)))
                # C02 sense over the whole episode
                allA, allB = set(content_map(fin["A"], staging=True).values()), set(content_map(fin["B"], staging=True).values())
                for s, o in (("A", "B"), ("B", "A")):
                    prem, preo = content_map(pre[s]), content_map(pre[o])
                    for p, c in prem.items():
                        if lc.get(p) == c and preo.get(p) != c:
                            continue
                        if c not in allA or c not in allB:
                            res["viol"].append(("C08|version-lost-across-crash-and-recovery", dict(label, side=s, path=p)))
        cnt("kill_points", k - 1)
        cnt("kills_between_last_data_rename_and_archive_rename", window_after_last_data)
        cnt("kills_between_bak_rename_and_archive_rename", window_bak)
        cnt("distinct_post_crash_states", len(post_states))
        if abs((k - 1) - N) > 0:
            cnt("note_kill_points_differ_from_reference_count", abs((k - 1) - N))
        for stt in post_states:
            res["distinct"].add("%s|%x" % (name, hash(stt) & 0xFFFFFFFF))
        res["samples"].append({"scenario": name, "kill_points": k - 1, "reference_mutating_calls": N, "post_crash_states": len(post_states)})
        sb.destroy()
        rmtree(save)
    return res


def c08(tier):
    build("cli", "vh", "shim")
    r = Result("C08", "fault_enumeration", "one evaluation = one (scenario, k): bisync killed (SIGKILL by the LD_PRELOAD shim) immediately before its k-th file-system-mutating libc call, for EVERY k until a run is no longer killed; after each kill: every non-staging path holds its complete pre-run or new bytes, the archive file is old / absent / new, a visible new archive implies both trees already equal the uninterrupted result; trace-order monitor: every data file renamed into place was fsync'ed after its last write and before the archive's rename, the archive tmp is fsync'ed before its rename, no data rename follows it; then <= 3 recovery runs must complete, equal the uninterrupted result and lose no version; distinct non-trivial = distinct post-crash (trees, archive) states")
    th = tier == "thorough"
    names = list(c08_scenarios())
    if th:
        names += ["gen%d" % i for i in range(240)]
    else:
        names += ["gen%d" % (seed() * 7 + i) for i in range(12)]
    wroot = workdir("c08")
    jobs = [(seed(), i, i + 1, wroot, names) for i in range(len(names))]
    with Pool(NCPU) as pool:
        parts = pool.map(_c08_worker, jobs)
    rmtree(wroot)
    fold(r, parts)
    r.exhaustive = True
    r.assumptions = ["exhaustive refers to k for each scenario (kills land before libc calls of the copia process)", "a process kill cannot lose page-cache contents: 'flushed to stable storage' is decided as an ordering of observed fsync/rename calls, not as survival of a power cut", "directory syncs for data files are not demanded"]
    if tier == "thorough":
        asan_stage(r, "C08")
    finish(r, tier)


# ------------------------------------------------------------------ C15 (bisync dry-run part)
ACTION_RE = re.compile(r"^(\S+(?:\([A-Za-z]+\))?)\s+(.*)$", re.S)


def parse_dry_lines(stdout):
    """`{:<22} {path}` lines; a path may contain newlines, so split on the known action words."""
    acts = ["PropagateAtoB", "PropagateBtoA", "ConvergeIdentical", "DeleteA", "DeleteB", "Conflict(BothChanged)", "Conflict(DeleteVsModify)", "Noop"]
    body = stdout
    tail = "(dry run) nothing was modified\n"
    if body.endswith(tail):
        body = body[: -len(tail)]
    # tokenise: every record starts at line start with an action padded to 22 columns + space
    pat = re.compile(r"(?:^|(?<=\n))(%s) +" % "|".join(re.escape(a) for a in acts))
    recs = []
    ms = list(pat.finditer(body))
    for i, m in enumerate(ms):
        if len(m.group(0)) != max(22, len(m.group(1))) + 1:
            continue
        end = ms[i + 1].start() if i + 1 < len(ms) else len(body)
        path = body[m.end():end]
        if path.endswith("\n"):
            path = path[:-1]
        recs.append((m.group(1), path))
    return recs


def _c15b_worker(args):
    seedv, lo, hi, wroot = args
    res = {"evaluations": 0, "distinct": set(), "viol": [], "counters": {}, "samples": [], "inconclusive": 0}

    def cnt(k, n=1):
        res["counters"][k] = res["counters"].get(k, 0) + n

    for idx in range(lo, hi):
        hist = hist_for(seedv, idx, "c15b")
        # no newline names here: the dry-run line format cannot delimit them unambiguously
        hist = [st for st in hist if not (st[0] in ("w", "d") and "\n" in st[2])]
        sb = Sandbox(os.path.join(wroot, "w%d" % lo))
        for i, st in enumerate(hist):
            if st[0] != "s":
                apply_step(sb, st)
                continue
            frng = SplitMix.derive(seedv, "c15bfault", idx, i)
            if frng.chance(1, 3) and sb.archive_file() is not None:
                # a dry run must not touch the recorded state whatever condition that state is in
                kind = frng.pick(["only-bak", "only-bak-and-tmp", "only-tmp", "remove", "garbage", "empty"])
                if inject_fault(sb, kind, frng) is not None:
                    cnt("dry_runs_on_damaged_archive[%s]" % kind)
            pre = sb.snaps()
            arch0 = sb.archive_listing()
            home0 = snapshot(sb.home)
            rd = bisync(sb, dry=True)
            mid = sb.snaps()
            res["evaluations"] += 1
            label = {"history_index": idx, "step": i}
            for s in "AB":
                if set(pre[s]) != set(mid[s]) or any(pre[s][p] != mid[s][p] for p in pre[s]):
                    res["viol"].append(("C15|bisync|dry-run-changed-tree", dict(label, side=s)))
            if sb.archive_listing() != arch0 or snapshot(sb.home) != home0:
                res["viol"].append(("C15|bisync|dry-run-changed-recorded-state", dict(label)))
            if rd.code != 0:
                res["viol"].append(("C15|bisync|dry-run-failed", dict(label, run=rd.brief())))
            recs = parse_dry_lines(rd.stdout)
            pcd = plan_counts(rd)
            rr = bisync(sb)
            post = sb.snaps()
            note_losers(sb, mid, post)
            pcr = plan_counts(rr)
            if pcd != pcr:
                res["viol"].append(("C15|bisync|dry-run-plan-line-differs-from-real-run", dict(label, dry=pcd, real=pcr)))
            if pcd and len(recs) != pcd[0]:
                res["viol"].append(("C15|bisync|dry-run-lines-differ-from-plan-count", dict(label, lines=len(recs), plan=pcd, stdout=rd.stdout[-300:])))
            if completed(rr):
                A0, B0 = content_map(pre["A"]), content_map(pre["B"])
                A1, B1 = content_map(post["A"]), content_map(post["B"])
                listed = set()
                # a divergent edit announced in the same run (re)creates `<path>.conflict-...`: a delete announced
                # for that very name is carried out and then superseded by the copy the conflict preserves
                recreated = {q for act2, p2 in recs if act2 == "Conflict(BothChanged)" for q in set(A1) | set(B1) if q.startswith(p2 + ".conflict-")}
                for act, p in recs:
                    listed.add(p)
                    ok = True
                    if act == "PropagateAtoB":
                        ok = B1.get(p) == A0.get(p) and A1.get(p) == A0.get(p)
                    elif act == "PropagateBtoA":
                        ok = A1.get(p) == B0.get(p) and B1.get(p) == B0.get(p)
                    elif act == "DeleteA":
                        ok = p not in A1 or (p in recreated and A1.get(p) == B1.get(p))
                    elif act == "DeleteB":
                        ok = p not in B1 or (p in recreated and A1.get(p) == B1.get(p))
                    elif act == "Conflict(BothChanged)":
                        ok = A0.get(p) in set(A1.values()) and A0.get(p) in set(B1.values()) and B0.get(p) in set(A1.values()) and B0.get(p) in set(B1.values())
                        listed |= {q for q in set(A1) | set(B1) if q.startswith(p + ".conflict-")}
                    elif act == "Conflict(DeleteVsModify)":
                        surv = A0.get(p) or B0.get(p)
                        ok = A1.get(p) == surv and B1.get(p) == surv
                    elif act == "ConvergeIdentical":
                        ok = A1.get(p) == A0.get(p) and B1.get(p) == B0.get(p)
                    if not ok:
                        res["viol"].append(("C15|bisync|announced-action-not-performed|" + act, dict(label, path=p)))
                    cnt("actions_checked[%s]" % act)
                for s, m0, m1 in (("A", A0, A1), ("B", B0, B1)):
                    for p in set(m0) | set(m1):
                        if p in listed or is_staging(p):
                            continue
                        if m0.get(p) != m1.get(p):
                            res["viol"].append(("C15|bisync|real-run-changed-unannounced-path", dict(label, side=s, path=p)))
                if recs:
                    res["distinct"].add("bisync|" + ",".join(sorted({a for a, _ in recs})))
            if len(res["samples"]) < 1 and recs:
                res["samples"].append(dict(label, dry_lines=recs[:5]))
        sb.destroy()
    return res


# ------------------------------------------------------------------ C18 CLI cross-check (thorough)
def table_py(a, b, z):
    """The documented decision table as a function of equality only (written from the statement)."""
    if a is None and b is None:
        return "Noop"
    if a is not None and b is not None:
        if a == b:
            return "Noop" if z == a else "ConvergeIdentical"
        ad, bd = z != a, z != b
        if ad and not bd:
            return "PropagateAtoB"
        if bd and not ad:
            return "PropagateBtoA"
        return "Conflict(BothChanged)"
    if b is None:
        if z is None:
            return "PropagateAtoB"
        return "DeleteA" if z == a else "Conflict(DeleteVsModify)"
    if z is None:
        return "PropagateBtoA"
    return "DeleteB" if z == b else "Conflict(DeleteVsModify)"


def _c18cli_worker(args):
    seedv, lo, hi, wroot = args
    res = {"evaluations": 0, "distinct": set(), "viol": [], "counters": {}, "samples": [], "inconclusive": 0}

    def cnt(k, n=1):
        res["counters"][k] = res["counters"].get(k, 0) + n

    vals = {"x": b"content-x", "y": b"content-y-longer", "z": b"zzz"}
    paths = ["p0", "d/p1", "p 2"]
    for idx in range(lo, hi):
        rng = SplitMix.derive(seedv, "c18cli", idx)
        sb = Sandbox(os.path.join(wroot, "w%d" % lo))
        base = {p: rng.pick([None, "x", "x", "y"]) for p in paths}
        with_archive = rng.chance(3, 4)
        if with_archive:
            for p, v in base.items():
                if v:
                    for s in "AB":
                        write_file(os.path.join(sb.side(s), p), vals[v])
            r0 = bisync(sb)
            if not completed(r0):
                sb.destroy()
                continue
        a = {p: rng.pick([None, base[p] or "x", "y", "z"]) for p in paths}
        b = {p: rng.pick([None, base[p] or "x", "y", "z"]) for p in paths}
        for side, m in (("A", a), ("B", b)):
            for p in paths:
                full = os.path.join(sb.side(side), p)
                if m[p] is None:
                    if os.path.exists(full):
                        os.unlink(full)
                else:
                    write_file(full, vals[m[p]])
        rd = bisync(sb, dry=True)
        got = dict((p, act) for act, p in parse_dry_lines(rd.stdout))
        res["evaluations"] += 1
        want = {}
        for p in paths:
            t = table_py(a[p], b[p], base[p] if with_archive else None)
            if t != "Noop":
                want[p] = t
        if got != want:
            res["viol"].append(("C18|cli|dry-run-plan-differs-from-table", {"index": idx, "a": a, "b": b, "base": base, "archive": with_archive, "got": got, "want": want, "stdout": rd.stdout[-300:]}))
        for t in want.values():
            cnt("cli_actions[%s]" % t)
        if want:
            res["distinct"].add("cli|" + ",".join(sorted(set(want.values()))) + ("|trusted" if with_archive else "|no-base"))
        if len(res["samples"]) < 1 and want:
            res["samples"].append({"a": a, "b": b, "base": base if with_archive else None, "plan": want})
        sb.destroy()
    return res


def c18_cli_crosscheck(r, n):
    build("cli")
    fold(r, run_pool(_c18cli_worker, seed(), n, "c18cli"))
