"""Hub monitors: C03 (linearizable CAS), C10 (only complete verified content), C13 (hub-sync),
C11 (containment), C12 (wire input totality) — process-level parts."""
import hashlib
import os
import re
import shutil
import struct
import subprocess
import sys
import time
from multiprocessing import Pool

import cbor
from common import asan_stage, COPIA, NCPU, Result, SplitMix, build, finish, seed, workdir
from fsutil import B3, STAGING, base_env, install_standin, read_traces, rmtree, run, shim_env, snapshot, unesc
from hubsched import PCT, Bounded, HubRun, Inconclusive, KillAt, Op, RandomWalk, Replay, walk_root

INF = 10 ** 9


def ident(b):
    return hashlib.blake2b(b, digest_size=16).hexdigest()


# ------------------------------------------------------------------ program generation
SIZES = [20, 20, 1024, 1024, 300 * 1024, 700 * 1024, 8191, 8192, 8193, 262143, 262144, 262145]


def alias(rng, path):
    """Another spelling of the same hub path (accepted by the hub's path check), one time in three."""
    k = rng.below(9)
    if k == 0:
        return "./" + path
    if k == 1:
        return path.replace("/", "//") if "/" in path else ".//" + path
    if k == 2:
        return path.replace("/", "/./") if "/" in path else "././" + path
    return path


def gen_programs(rng, nclients, big_ok=True, kinds=None, nshared=None):
    shared = ["f", "d/g"][: (nshared or rng.range(1, 2))]
    if nshared is None and rng.chance(1, 6):
        # names that merely LOOK like the hub's own control directory are ordinary paths: writable, listable
        shared[0] = rng.pick([".copiaignore", ".copia-old/x", ".copia.d/y", "sub/.copia"])
    contents = {"init-f": b"initial content of f", "init-g": b"initial g " * 50}
    initial = {}
    if rng.chance(2, 3):
        initial[shared[0]] = "init-f"
    if "d/g" in shared and rng.chance(1, 2):
        initial["d/g"] = "init-g"
    programs = []
    nonce = 0
    # one program in four writes contents of ONE length only (and everything happens within a second or two):
    # size and mtime then say nothing about which version a file holds
    one_size = rng.pick([20, 1024, 8192]) if rng.chance(1, 4) else None
    kinds = kinds or ["Put"] * 10 + ["Delete"] * 3 + ["Get"] * 4 + ["List"] * 3
    for c in range(nclients):
        prog = []
        # mostly 1-4 requests per connection; one client in eight keeps its connection for 6-12 requests
        # (whatever a server remembers from request to request gets a chance to go stale)
        for k in range(rng.range(1, 4) if not rng.chance(1, 8) else rng.range(6, 12)):
            kind = rng.pick(kinds)
            path = rng.pick(shared) if rng.chance(4, 5) else "priv%d" % c
            if kind == "Put":
                nonce += 1
                size = rng.pick(SIZES if big_ok else SIZES[:4])
                if one_size:
                    size = one_size
                head = b"%d:%d:%04x|" % (c, k, nonce)
                data = (head * (size // len(head) + 1))[:max(size, len(head))]
                zk = rng.below(8) if not one_size else 99
                if zk == 0:
                    data = head + bytes(max(size, 8192) - len(head))          # unique head, all zeros after it
                elif zk == 1:
                    data = data[: max(len(head), size // 2)] + bytes(rng.pick([4096, 8192, 70000]))  # long zero tail
                elif zk == 2:
                    data = data[: size // 2] + bytes(8192) + data[size // 2:]  # zeros in the middle
                elif zk == 3 and big_ok:
                    data = (head * 30000)[: rng.pick([262144, 131072])] + bytes(rng.pick([262144, 524288]))  # ends with whole zero buffers, length a multiple of 256 KiB
                key = "c%d.%d" % (c, k)
                contents[key] = data
                if not one_size and rng.chance(1, 10):
                    # an emptied file: zero bytes are a complete, verifiable content like any other
                    key = "empty"
                    contents[key] = b""
                if c > 0 and rng.chance(1, 8):
                    # the very bytes another client is writing (to the same or another path): whatever is keyed by
                    # content or by its hash is now shared between two server processes
                    others = sorted(kk for kk in contents if kk.startswith("c") and not kk.startswith("c%d." % c))
                    if others:
                        key = rng.pick(others)
                exp = rng.pick(["seen"] * 4 + ["init"] * 3 + ["none"] * 2 + ["stale"] + ["self"] * 2)
                if exp == "self":
                    # "I last saw exactly the bytes I am sending" (a client re-sending what it believes is already there):
                    # a no-op only if the hub still holds them - otherwise a refused write like any other
                    exp = ("content", key)
                prog.append(Op(c, "Put", path, expected=exp, content=key, opno=k, pieces=rng.range(1, 5), wire=alias(rng, path)))
            elif kind == "Delete":
                prog.append(Op(c, "Delete", path, expected=rng.pick(["seen", "seen", "init", "none", "stale"]), opno=k, wire=alias(rng, path)))
            elif kind == "Get":
                prog.append(Op(c, "Get", path, opno=k, wire=alias(rng, path)))
            else:
                prog.append(Op(c, "List", opno=k))
        prog.append(Op(c, "Bye", opno=99))
        programs.append(prog)
    if nclients >= 3 and rng.chance(1, 2):
        # a client that connects and leaves at once (or after one request): its session ends while the others
        # are in the middle of theirs, so whatever a server does at session end is interleaved with commits
        b = rng.below(nclients)
        programs[b] = (programs[b][:1] if rng.chance(1, 3) and programs[b][0].kind != "Bye" else []) + [Op(b, "Bye", opno=99)]
    return programs, contents, initial


def two_op_programs():
    """The two-client, one-operation-each programs whose <= 2-pre-emption schedules are enumerated."""
    big_a = (b"A-unique-1|" * 30000)[:300 * 1024]
    big_b = (b"B-unique-2|" * 30000)[:300 * 1024]
    contents = {"init-f": b"initial content of f", "a": big_a, "b": big_b, "sa": b"small-a-unique", "sb": b"small-b-unique"}
    P = {}
    P["put-put-big"] = ([[Op(0, "Put", "f", expected="init", content="a", pieces=1), Op(0, "Bye")], [Op(1, "Put", "f", expected="init", content="b", pieces=1), Op(1, "Bye")]], {"f": "init-f"})
    P["put-put-small-create"] = ([[Op(0, "Put", "f", expected="none", content="sa"), Op(0, "Bye")], [Op(1, "Put", "f", expected="none", content="sb"), Op(1, "Bye")]], {})
    P["put-delete"] = ([[Op(0, "Put", "f", expected="init", content="sa"), Op(0, "Bye")], [Op(1, "Delete", "f", expected="init"), Op(1, "Bye")]], {"f": "init-f"})
    P["put-get"] = ([[Op(0, "Put", "f", expected="init", content="a", pieces=1), Op(0, "Bye")], [Op(1, "Get", "f"), Op(1, "Bye")]], {"f": "init-f"})
    P["delete-get"] = ([[Op(0, "Delete", "f", expected="init"), Op(0, "Bye")], [Op(1, "Get", "f"), Op(1, "Bye")]], {"f": "init-f"})
    P["put-list"] = ([[Op(0, "Put", "f", expected="init", content="sa"), Op(0, "Bye")], [Op(1, "List"), Op(1, "Bye")]], {"f": "init-f"})
    return P, contents


def bystander_programs(rng):
    """2-3 writers that all name the initial hash of one path, plus 1-2 clients that only connect and leave (or
    look once): what a server does when its session ends is interleaved with the others' commit sections."""
    contents = {"init-f": b"initial content of f"}
    programs = []
    shape = rng.pick([0, 1, 2, 2])
    if shape == 1:
        # a chain: A commits, B looks and replaces it (same length, same second), A comes back on its still-open
        # connection with what it last saw - whatever A's server remembers about `f` is stale by then
        fill = rng.pick([b"", b"." * 3000])
        for key in ("v1", "v2", "v3"):
            contents[key] = b"%s-%s|" % (key.encode(), rng.bytes(4).hex().encode()) + fill
        a = [Op(0, "Put", "f", expected="init", content="v1", opno=0), Op(0, rng.pick(["Put", "Put", "Delete", "Get"]), "f", expected="seen", content="v3", opno=1)]
        if rng.chance(1, 2):
            a.append(Op(0, "Get", "f", opno=2))
        b = [Op(1, "Get", "f", opno=0), Op(1, "Put", "f", expected="seen", content="v2", opno=1)]
        if rng.chance(1, 2):
            b.insert(0, Op(1, "Get", "f", opno=5))
        programs = [a + [Op(0, "Bye", opno=99)], b + [Op(1, "Bye", opno=99)]]
        if rng.chance(1, 3):
            programs.append([Op(2, "Bye", opno=99)])
        return programs, contents, {"f": "init-f"}
    nw = rng.pick([2, 2, 3]) if shape == 0 else 3
    nb = rng.pick([1, 1, 2]) if shape == 0 else rng.pick([0, 0, 1])
    roles = rng.shuffle(["w"] * nw + ["b"] * nb)
    other_done = False
    for c, role in enumerate(roles):
        if role == "w":
            key = "w%d" % c
            contents[key] = (b"writer-%d-%s|" % (c, rng.bytes(4).hex().encode())) * rng.pick([2, 2, 400])
            if shape == 2 and not other_done:
                # one writer commits to ANOTHER path: it passes through the commit section without changing what
                # the other writers' expected hashes refer to
                other_done = True
                prog = [Op(c, "Put", "g", expected="none", content=key, opno=0, pieces=rng.range(1, 3))]
            else:
                prog = [Op(c, rng.pick(["Put", "Put", "Put", "Delete"]), "f", expected="init", content=key, opno=0, pieces=rng.range(1, 3))]
            if rng.chance(1, 3):
                prog.append(Op(c, "Get", "f", opno=1))
        else:
            prog = [Op(c, "Get", "f", opno=0)] if rng.chance(1, 3) else []
        prog.append(Op(c, "Bye", opno=99))
        programs.append(prog)
    return programs, contents, {"f": "init-f"}


def shape_programs(rng):
    """One name is a FILE for some clients and a DIRECTORY for others (`n` and `n/sub/x`), at once or one after the
    other. The hub may refuse what cannot be carried out; it may not make room by dropping what it acknowledged."""
    name = rng.pick(["n", "d/n", "notes"])
    below = name + rng.pick(["/x", "/sub/x", "/a/b/c"])
    contents = {"init-file": b"file that was here first " + rng.bytes(4).hex().encode(), "init-below": b"entry below that was here first " + rng.bytes(4).hex().encode()}
    initial = {}
    k = rng.below(3)
    if k == 0:
        initial[name] = "init-file"
    elif k == 1:
        initial[below] = "init-below"
    nclients = rng.pick([2, 2, 3])
    programs = []
    for c in range(nclients):
        prog = []
        for j in range(rng.range(1, 3)):
            path = rng.pick([name, below, below, name, "other"])
            kind = rng.pick(["Put", "Put", "Put", "Get", "Delete", "List"])
            if kind == "Put":
                key = "c%d.%d" % (c, j)
                contents[key] = (b"%d:%d:%s|" % (c, j, rng.bytes(3).hex().encode())) * rng.pick([1, 3, 2000])
                prog.append(Op(c, "Put", path, expected=rng.pick(["seen", "none", "init"]), content=key, opno=j, pieces=rng.range(1, 3)))
            elif kind == "Delete":
                prog.append(Op(c, "Delete", path, expected=rng.pick(["seen", "init"]), opno=j))
            elif kind == "Get":
                prog.append(Op(c, "Get", path, opno=j))
            else:
                prog.append(Op(c, "List", opno=j))
        prog.append(Op(c, "Bye", opno=99))
        programs.append(prog)
    return programs, contents, initial


def clone_programs(programs):
    out = []
    for prog in programs:
        out.append([Op(o.client, o.kind, o.path, expected=o.expected_spec, content=o.content, opno=o.opno, wire=o.wire, **o.extra) for o in prog])
    return out


# ------------------------------------------------------------------ linearizability (per path)
class LinOp:
    __slots__ = ("id", "kind", "exp", "val", "call", "ret", "reply", "src")


def shape_refusal(op):
    """A write the hub answered with an Error because a file stands where a directory is needed or the reverse: the
    client was told it failed, and it must have had no effect."""
    m = str((op.reply or {}).get("msg", ""))
    return op.kind in ("Put", "Delete") and (op.reply or {}).get("kind") == "Error" and any(t in m for t in ("Is a directory", "Not a directory", "os error 20", "os error 21", "File exists", "os error 17"))


def lin_ops_for_path(run, path, final_hash, shape=False):
    ops = []
    n = 0
    for op in run.history:
        if shape and op.path == path and shape_refusal(op):
            continue
        if op.kind in ("Put", "Delete", "Get") and op.path == path:
            lo = LinOp()
            lo.id = n
            n += 1
            lo.kind = op.kind
            lo.exp = op.expected
            lo.val = run.hash_of(op.content) if op.kind == "Put" else None
            lo.call = op.call
            lo.ret = op.ret if op.reply is not None else INF
            lo.reply = op.reply
            lo.src = op
            ops.append(lo)
        elif op.kind == "List" and op.reply is not None and op.reply.get("kind") == "Fingerprints":
            lo = LinOp()
            lo.id = n
            n += 1
            lo.kind = "Read"
            lo.call = op.call
            lo.ret = op.ret
            ent = op.reply["map"].get(path)
            lo.reply = {"kind": "Observed", "hash": ent[0] if ent else None}
            lo.exp = lo.val = None
            lo.src = op
            ops.append(lo)
    fin = LinOp()
    fin.id = n
    fin.kind = "Read"
    fin.call = fin.ret = INF - 1
    fin.reply = {"kind": "Observed", "hash": final_hash}
    fin.exp = fin.val = None
    fin.src = None
    ops.append(fin)
    return ops


def lin_step(live, o):
    """Sequential CAS map. Returns (reply consistent?, new live). Open ops have no reply to match."""
    done = o.ret < INF
    rep = o.reply or {}
    k = o.kind
    if k == "Put":
        if live == o.exp:
            if done and not (rep.get("kind") == "PutResult" and rep.get("committed") is True and rep.get("current") == o.val):
                return False, live
            return True, o.val
        if done and not (rep.get("kind") == "PutResult" and rep.get("committed") is False and rep.get("current") == live):
            return False, live
        return True, live
    if k == "Delete":
        if live == o.exp:
            if done and not (rep.get("kind") == "DeleteResult" and rep.get("deleted") is True):
                return False, live
            return True, None
        if done and not (rep.get("kind") == "DeleteResult" and rep.get("deleted") is False and rep.get("current") == live):
            return False, live
        return True, live
    if k == "Get":
        if not done:
            return True, live
        if rep.get("kind") == "Content":
            return (live is not None and rep.get("hash") == live), live
        if rep.get("kind") == "Error":
            return live is None, live
        return False, live
    if k == "Read":
        return rep.get("hash") == live, live
    return True, live


def linearizable(ops, init, budget=1_000_000):
    """Wing-Gong search with memoisation under the real-time order of non-overlapping operations.
    Completed operations must all be linearized; open ones may take effect anywhere after their
    call or never. Returns (verdict, nodes): True / False / None (budget exhausted)."""
    must = frozenset(o.id for o in ops if o.ret < INF)
    seen = set()
    nodes = [0]

    def dfs(done, live):
        if must <= done:
            return True
        key = (done, live)
        if key in seen:
            return False
        seen.add(key)
        nodes[0] += 1
        if nodes[0] > budget:
            raise TimeoutError()
        undone = [o for o in ops if o.id not in done]
        minret = min(o.ret for o in undone)
        for o in undone:
            if o.call > minret:
                continue
            ok, nl = lin_step(live, o)
            if ok and dfs(done | {o.id}, nl):
                return True
        return False

    try:
        return dfs(frozenset(), init), nodes[0]
    except (TimeoutError, RecursionError):
        return None, nodes[0]


# ------------------------------------------------------------------ monitors shared by C03 / C10
class StepMonitor:
    """Called after every scheduling step: walks ROOT and applies the step-wise monitors."""

    def __init__(self, prop):
        self.prop = prop
        self.viol = []
        self.snapshots = 0
        self.files_classified = 0
        self.acked = {}       # path -> (identity, ack step)
        self.conflicts = {}   # conflict path -> identity
        self.seen_replies = set()
        self.allowed_cache = None

    def allowed(self, run):
        if self.allowed_cache is None:
            self.allowed_cache = {}
        return self.allowed_cache

    def __call__(self, run):
        tree = walk_root(run.root)
        self.snapshots += 1
        # newly arrived replies
        for op in run.history:
            if op.reply is None or id(op) in self.seen_replies:
                continue
            self.seen_replies.add(id(op))
            if op.kind == "Put" and op.reply.get("kind") == "PutResult" and not op.extra.get("bad"):
                cid = ident(run.contents[op.content])
                if op.reply.get("committed"):
                    self.acked[op.path] = (cid, op.ret, op)
                else:
                    cname = "%s.conflict-%s" % (op.path, run.hash_of(op.content)[:12])
                    self.conflicts[cname] = (cid, op)
            elif op.kind == "Delete" and op.reply.get("kind") == "DeleteResult" and op.reply.get("deleted"):
                self.acked[op.path] = (None, op.ret, op)
        now = run.step
        # C10 (a): every listable non-staging path holds initial content or one verified Put
        if self.prop == "C10":
            for rel, (idv, size) in tree.items():
                if rel.endswith(STAGING):
                    continue
                self.files_classified += 1
                ok = False
                base = rel
                m = re.match(r"^(.*)\.conflict-([0-9a-f]{12})$", rel)
                if rel in run.initial and ident(run.contents[run.initial[rel]]) == idv:
                    ok = True
                if not ok:
                    for op in run.history:
                        if op.kind != "Put" or op.call is None or op.call > now or op.extra.get("bad"):
                            continue
                        if ident(run.contents[op.content]) != idv:
                            continue
                        if op.path == rel or (m and op.path == m.group(1) and run.hash_of(op.content)[:12] == m.group(2)):
                            ok = True
                            break
                if not ok:
                    self.viol.append(("C10|path-holds-unverified-or-partial-bytes", {"path": rel, "size": size, "step": now, "last": run.trace[-1] if run.trace else None}))
        # persistence of conflict copies
        for cname, (cid, op) in self.conflicts.items():
            if tree.get(cname, (None,))[0] != cid:
                self.viol.append(("%s|conflict-copy-missing-or-altered" % self.prop, {"path": cname, "step": now, "put": op.brief(), "present": cname in tree}))
        # persistence of acknowledged live content while no other writer can have replaced it
        for p, (cid, ackstep, aop) in self.acked.items():
            others = [o for o in run.history if o is not aop and o.path == p and o.kind in ("Put", "Delete") and o.call is not None and o.call <= now and (o.reply is None or o.ret >= aop.call)]
            others = [o for o in others if o.reply is None or (o.reply.get("committed") or o.reply.get("deleted")) or o.reply.get("kind") == "Error"]
            cur = tree.get(p, (None,))[0]
            if others:
                # a replacement may be under way: the path then holds the acknowledged bytes or the complete bytes of
                # one of the replacing writes (or nothing, for a delete) - never something in between
                allowed = {cid} | {ident(run.contents[o.content]) for o in others if o.kind == "Put" and not o.extra.get("bad")} | ({None} if any(o.kind == "Delete" for o in others) else set())
                if cur not in allowed and not any(o.extra.get("bad") for o in others):
                    self.viol.append(("%s|acknowledged-content-altered-while-being-replaced" % self.prop, {"path": p, "step": now, "op": aop.brief(), "live_now": cur}))
                continue
            if cur != cid:
                self.viol.append(("%s|acknowledged-content-not-live" % self.prop, {"path": p, "step": now, "op": aop.brief(), "live_now": cur}))


def dedupe(viol):
    seen = set()
    out = []
    for sig, det in viol:
        k = (sig, det.get("path"))
        if k in seen:
            continue
        seen.add(k)
        out.append((sig, det))
    return out


def schedule_report(run, extra=None):
    d = {"choices": [list(c) for c in run.choices], "steps": run.step, "trace_tail": [list(map(str, t)) for t in run.trace[-25:]], "history": [o.brief() for o in run.history if o.kind not in ("Bye",)], "final_tree": {k: v[1] for k, v in walk_root(run.root).items()}}
    if extra:
        d.update(extra)
    return d


def check_c03(run, mon, res_viol, counters, shape=False):
    """Linearizability per path + conflict-copy rule + final-state rules on one finished schedule.
    shape: programs in which one path is a file and a directory of another (`n` and `n/x`); a write refused with an
    Error for that reason is left out of the history (no effect), everything else is judged as usual - in particular
    an acknowledged file never vanishes because somebody needed a directory there."""
    tree = walk_root(run.root)
    paths = sorted({o.path for o in run.history if o.path})
    nodes_total = 0
    for p in paths:
        # final live content as a BLAKE3 hash
        fin = None
        if p in tree:
            fin = run.b3.file(os.path.join(run.root, p))
        ops = lin_ops_for_path(run, p, fin, shape=shape)
        init = run.hash_of(run.initial.get(p))
        if len(ops) > 14:
            counters["keys_skipped_too_many_ops"] = counters.get("keys_skipped_too_many_ops", 0) + 1
            continue
        verdict, nodes = linearizable(ops, init)
        nodes_total += nodes
        counters["keys_checked"] = counters.get("keys_checked", 0) + 1
        if verdict is None:
            counters["checker_budget_exhausted"] = counters.get("checker_budget_exhausted", 0) + 1
        elif verdict is False:
            res_viol.append(("C03|history-not-linearizable", schedule_report(run, {"path": p, "ops": [(o.kind, o.exp and o.exp[:8], o.val and o.val[:8], o.call, o.ret if o.ret < INF else None, {k: (v[:8] if isinstance(v, str) and len(v) == 64 else v) for k, v in (o.reply or {}).items() if k not in ("bytes", "map")}) for o in ops], "initial": init and init[:8]})))
    counters["checker_nodes"] = counters.get("checker_nodes", 0) + nodes_total
    # a non-committed Put leaves its bytes in the conflict copy; live file untouched is covered by linearizability
    for op in run.history:
        if op.kind == "Put" and op.reply and op.reply.get("kind") == "PutResult" and op.reply.get("committed") is False:
            cname = "%s.conflict-%s" % (op.path, run.hash_of(op.content)[:12])
            if tree.get(cname, (None,))[0] != ident(run.contents[op.content]):
                res_viol.append(("C03|conflict-copy-missing-or-altered", schedule_report(run, {"path": cname, "present": cname in tree})))
        if op.kind in ("Put", "Delete") and op.reply and op.reply.get("kind") == "Error":
            if shape and shape_refusal(op):
                counters["writes_refused_for_a_file_directory_clash"] = counters.get("writes_refused_for_a_file_directory_clash", 0) + 1
                continue
            res_viol.append(("C03|unexpected-error-reply", schedule_report(run, {"op": op.brief()})))
    for sig, det in dedupe(mon.viol):
        res_viol.append((sig, schedule_report(run, det)))


def overlap_stats(run, counters):
    """Did two operations on one path overlap in time? Did two staging sequences overlap?"""
    ops = [o for o in run.history if o.kind in ("Put", "Delete", "Get") and o.call is not None]
    ov = False
    for i, a in enumerate(ops):
        for b in ops[i + 1:]:
            if a.client != b.client and a.path == b.path:
                ar = a.ret if a.ret is not None else INF
                br = b.ret if b.ret is not None else INF
                if a.call <= br and b.call <= ar:
                    ov = True
    # staging overlap: between a server's openw of a staging name and its rename, another server opened the same name
    open_st = {}
    stag_overlap = False
    lock_order = []
    for st, actor, what in run.trace:
        if what.startswith("openw ") and STAGING in what:
            name = what.split(" ")[1]
            for a2, n2 in open_st.items():
                if a2 != actor and n2.split(".copia-tmp")[0].split(".")[0] == name.split(".copia-tmp")[0].split(".")[0]:
                    stag_overlap = True
            open_st[actor] = name
        if what.startswith("rename ") and actor in open_st:
            del open_st[actor]
        if what.startswith("flock ") and what.endswith("-> 0"):
            lock_order.append(actor)
    return ov, stag_overlap, tuple(lock_order)


# ------------------------------------------------------------------ C03 worker
def c03_generated_case(rng, mode):
    """Programs and strategy of one generated C03 schedule; the worker and `--replay` both build their case here,
    drawing from the same stream in the same order."""
    if mode == "shape":
        programs, contents, initial = shape_programs(rng)
        n = len(programs)
        strat = RandomWalk(rng) if rng.chance(1, 2) else PCT(rng, 2 * n, d=rng.range(1, 3), horizon=rng.pick([40, 120]))
    elif mode == "bystander":
        programs, contents, initial = bystander_programs(rng)
        n = len(programs)
        strat = RandomWalk(rng) if rng.chance(2, 3) else PCT(rng, 2 * n, d=rng.range(1, 3), horizon=rng.pick([40, 120]))
    else:
        n = rng.pick([2, 2, 3, 3, 4])
        programs, contents, initial = gen_programs(rng, n, big_ok=rng.chance(1, 2))
        if n >= 3 and rng.chance(1, 3):
            # contended: every write and delete names the initial hash of one shared path
            for pr in programs:
                for o in pr:
                    if o.kind in ("Put", "Delete"):
                        o.path = o.wire = "f"
                        o.expected_spec = "init"
            initial = {"f": "init-f"}
        if mode == "pct":
            strat = PCT(rng, 2 * n, d=rng.range(1, 3), horizon=rng.pick([40, 120, 300]))
        else:
            strat = RandomWalk(rng)
    return programs, contents, initial, n, strat


def _c03_worker(args):
    seedv, lo, hi, wroot, mode = args
    res = {"evaluations": 0, "distinct": set(), "viol": [], "counters": {}, "samples": [], "inconclusive": 0}
    cn = res["counters"]

    def cnt(k, n=1):
        cn[k] = cn.get(k, 0) + n

    b3 = B3()
    wd = os.path.join(wroot, "w%d-%s" % (lo, mode if isinstance(mode, str) else "-".join(map(str, mode[:2]))))
    lock_orders = set()
    for idx in range(lo, hi):
        rng = SplitMix.derive(seedv, "c03", str(mode), idx)
        if isinstance(mode, tuple) and mode[0] == "enum":
            _, pname, first, a, b = mode[0], mode[1], *idx_to_abf(idx, mode[2])
            P, contents = two_op_programs()
            programs, initial = P[pname]
            programs = clone_programs(programs)
            strat = Bounded(first, a, b)
            n = 2
            label = {"program": pname, "bounded": [first, a, b]}
        else:
            programs, contents, initial, n, strat = c03_generated_case(rng, mode)
            label = {"generator": mode, "index": idx, "clients": n}
        mon = StepMonitor("C03")
        run = HubRun(wd, n, programs, contents, initial, strat, rng, on_step=mon, b3=b3)
        if not (isinstance(mode, tuple) and mode[0] == "enum") and rng.chance(1, 4):
            run.root_alias = {i: rng.pick(["", "/.", "//", "/./"]) for i in range(n)}
        run.run()
        if run.inconclusive:
            res["inconclusive"] += 1
            cnt("inconclusive[%s]" % run.inconclusive.split(":")[0][:40])
            continue
        res["evaluations"] += 1
        found = []
        check_c03(run, mon, found, cn, shape=(mode == "shape"))
        ov, stag, lock_order = overlap_stats(run, cn)
        lock_orders.add((str(label.get("program", "")), lock_order))
        if ov:
            cnt("schedules_with_overlapping_ops_on_one_path")
            res["distinct"].add(run.interleaving_key())
        if stag:
            cnt("schedules_with_overlapping_staging")
        for o in run.history:
            if o.reply:
                cnt("outcome[%s:%s]" % (o.kind, o.reply.get("kind") + ("+" if o.reply.get("committed") or o.reply.get("deleted") else "-") if o.kind in ("Put", "Delete") else o.reply.get("kind")))
            elif o.kind != "Bye":
                cnt("outcome[%s:open]" % o.kind)
        cnt("steps", run.step)
        for sig, det in found:
            det["label"] = label
            res["viol"].append((sig, det))
        if len(res["samples"]) < 1:
            res["samples"].append({"label": label, "steps": run.step, "history": [o.brief() for o in run.history if o.kind != "Bye"][:6], "trace_head": [list(map(str, t)) for t in run.trace[:12]]})
    cnt("distinct_lock_acquisition_orders", len(lock_orders))
    b3.close()
    rmtree(wd)
    return res


def idx_to_abf(idx, dims):
    na, nb = dims
    first = idx % 2
    r = idx // 2
    return first, r % na, (r // na) % nb


def run_jobs(worker, jobs):
    with Pool(NCPU) as pool:
        return pool.map(worker, jobs, chunksize=1)


def fold(res, parts):
    for p in parts:
        res.evaluations += p["evaluations"]
        res.distinct |= p["distinct"]
        res.inconclusive += p.get("inconclusive", 0)
        for k, v in p["counters"].items():
            if k.startswith("max_"):
                res.cmax(k, v)
            else:
                res.count(k, v)
        for s in p["samples"]:
            res.sample(s)
        for sig, det in p["viol"]:
            res.violation(sig, det)


def measure_steps(pname):
    """Number of gated steps each server of a two-op program takes when run alone first."""
    P, contents = two_op_programs()
    programs, initial = P[pname]
    wd = workdir("c03m")
    b3 = B3()
    out = []
    for first in (0, 1):
        run = HubRun(wd, 2, clone_programs(programs), contents, initial, Bounded(first, 10 ** 6, 10 ** 6), SplitMix(1), b3=b3)
        run.run()
        out.append(run.servers[first].steps)
    b3.close()
    rmtree(wd)
    return out


def c03(tier):
    build("cli", "shim", "vh")
    r = Result("C03", "exploration", "one evaluation = one schedule of N in {2,3,4} real `copia serve` processes on one root, every file-system call under ROOT and every read(0) gated by the LD_PRELOAD shim, the driver playing the clients (unique Put contents, content cut into 1-5 pieces); generators: complete enumeration of all <= 2-pre-emption schedules of six two-client one-operation programs, PCT-style priorities, uniform random walk, scripted three-party programs (bystanders that connect and leave, foreign-commit chains, mixed-path writers), file-versus-directory programs (one name is a file for some clients and a directory for others; a write refused with an Error for that reason counts as having no effect); oracle: per-path Wing-Gong linearizability against a sequential CAS map (replies + final tree, List checked per path), conflict-copy present and intact for every non-committed Put, acknowledged content stays live until another writer can have replaced it (checked on a tree walk after EVERY step); distinct non-trivial = distinct step sequences in which two operations on one path overlapped in time")
    th = tier == "thorough"
    wroot = workdir("c03")
    jobs = []
    P, _ = two_op_programs()
    names = list(P) if th else ["put-put-big", "put-put-small-create", "put-delete", "put-get"]
    enum_total = 0
    for pname in names:
        na, nb = measure_steps(pname)
        na, nb = na + 1, nb + 1
        # (first, a, b): first runs a steps, other b steps, first finishes, other finishes
        dims = (na if th else min(na, 26), nb if th else min(nb, 26))
        total = 2 * dims[0] * dims[1]
        enum_total += total
        per = max(1, total // (NCPU * 2))
        for lo in range(0, total, per):
            jobs.append((seed(), lo, min(total, lo + per), wroot, ("enum", pname, dims)))
        r.extra.setdefault("enumerated_programs", {})[pname] = {"server_steps": [na - 1, nb - 1], "schedules": total, "complete": th or (na <= 26 and nb <= 26)}
    npct = 12000 if th else 700
    nrw = 8000 if th else 350
    per = max(1, npct // (NCPU * 2))
    for lo in range(0, npct, per):
        jobs.append((seed(), lo, min(npct, lo + per), wroot, "pct"))
    per = max(1, nrw // (NCPU * 2))
    for lo in range(0, nrw, per):
        jobs.append((seed(), lo, min(nrw, lo + per), wroot, "random"))
    nby = 8000 if th else 640
    per = max(1, nby // (NCPU * 2))
    for lo in range(0, nby, per):
        jobs.append((seed(), lo, min(nby, lo + per), wroot, "bystander"))
    nsh = 4000 if th else 320
    per = max(1, nsh // (NCPU * 2))
    for lo in range(0, nsh, per):
        jobs.append((seed(), lo, min(nsh, lo + per), wroot, "shape"))
    fold(r, run_jobs(_c03_worker, jobs))
    rmtree(wroot)
    r.extra["enumerated_schedules"] = enum_total
    r.assumptions = ["steps are libc calls: one large write is one step (kernel atomicity of a single write is trusted)", "only the first read()/readdir() on each open descriptor is a scheduling point", "List is checked per path (the hub documents per-file atomicity); degenerate paths (empty, `.`, trailing slash) are exercised in C11/C12", "interleavings needing >= 3 pre-emptions are reached only by the PCT/random generators"]
    if tier == "thorough":
        asan_stage(r, "C03")
    finish(r, tier)


# ------------------------------------------------------------------ C10
def check_gets(run, found):
    for op in run.history:
        if op.kind != "Get" or not op.reply:
            continue
        r = op.reply
        if r.get("kind") == "Content":
            b = r.get("bytes", b"")
            if len(b) != r.get("len"):
                found.append(("C10|get-delivered-fewer-bytes-than-announced", schedule_report(run, {"op": op.brief(), "got": len(b)})))
            elif run.b3.data(b) != r.get("hash"):
                found.append(("C10|get-bytes-do-not-hash-to-announced-hash", schedule_report(run, {"op": op.brief(), "actual": run.b3.data(b)[:12]})))
    for c in run.clients:
        if c.parser.broken:
            found.append(("C10|reply-stream-desynchronised", schedule_report(run, {"client": c.idx, "why": c.parser.broken})))
        elif c.waiting and run.servers[c.idx].exited and not run.servers[c.idx].killed and c.cur is not None and c.cur.kind == "Get" and c.parser.want_content is not None:
            found.append(("C10|get-delivered-fewer-bytes-than-announced", schedule_report(run, {"client": c.idx, "announced": c.parser.want_content[1], "received": len(c.parser.content)})))


def gen_bad_put(rng):
    """A single-client program with one malformed Put between valid operations."""
    good = b"good-content-" + rng.bytes(8).hex().encode()
    full = (b"bad-put-body-%s|" % rng.bytes(6).hex().encode()) * rng.pick([1, 40, 20000])
    short = full[: max(1, len(full) // rng.pick([2, 3, 10]))]
    contents = {"init-f": b"initial content of f", "good": good, "full": full, "short": short}
    initial = {"f": "init-f"} if rng.chance(2, 3) else {}
    kind = rng.pick(["wrong-hash", "short-then-eof-hash-of-full", "short-then-eof-hash-of-short", "len-larger-than-sent-then-eof", "len-smaller-than-sent", "len-zero-with-body-hash-of-body"])
    path = rng.pick(["f", "newfile", "d/x"])
    exp = "init" if path == "f" else "none"
    from fsutil import B3  # noqa
    bad = Op(0, "Put", path, expected=exp, content="full", bad=kind, pieces=rng.range(1, 3))
    if kind == "wrong-hash":
        bad.extra["declared_hash"] = hashlib.sha256(full).hexdigest()
    elif kind == "short-then-eof-hash-of-full":
        bad.extra.update(send_len=len(short), then_close=True)
    elif kind == "short-then-eof-hash-of-short":
        bad.extra.update(send_len=len(short), then_close=True, hash_of="short")
    elif kind == "len-larger-than-sent-then-eof":
        bad.extra.update(declared_len=len(full) + rng.pick([1, 1000]), then_close=True)
    elif kind == "len-smaller-than-sent":
        bad.extra.update(declared_len=max(0, len(full) - rng.pick([1, 7])))
    else:
        bad.extra.update(declared_len=0)
    prog = [Op(0, "Put", "other", expected="none", content="good"), bad]
    if kind == "wrong-hash" and rng.chance(1, 2):
        # state carried from a refused Put into the next one on the same connection: the second Put streams
        # its own bytes but declares the hash of (refused bytes + own bytes) / of (refused bytes)
        own = b"second-put-own-bytes-" + rng.bytes(6).hex().encode()
        contents["own"] = own
        contents["full+own"] = full + own
        which = rng.pick(["full+own", "full"])
        p2 = rng.pick(["f", "newfile2", "d/y"])
        bad2 = Op(0, "Put", p2, expected="init" if p2 == "f" else "none", content="own", bad="after-refused-put-declares-hash-of-" + which, pieces=rng.range(1, 3))
        bad2.extra["hash_of"] = which
        prog.append(bad2)
        kind = "wrong-hash-then-" + bad2.extra["bad"]
    if not bad.extra.get("then_close"):
        prog.append(Op(0, "Bye"))
    return [prog], contents, initial, kind


def gen_twin_put(rng):
    """Client 0 honestly Puts GOOD to f; client 1 Puts to f declaring GOOD's hash and length but
    streaming other bytes. Under every interleaving f may only ever hold initial or GOOD."""
    size = rng.pick([40, 2000, 300 * 1024, 300 * 1024])
    good = (b"GOOD-%s|" % rng.bytes(5).hex().encode()) * (size // 16 + 1)
    good = good[:size]
    bad = (b"EVIL-%s|" % rng.bytes(5).hex().encode()) * (size // 16 + 1)
    bad = bad[:size]
    contents = {"init-f": b"initial content of f", "good": good, "bad": bad}
    initial = {"f": "init-f"} if rng.chance(1, 2) else {}
    exp = "init" if initial else "none"
    honest = Op(0, "Put", "f", expected=exp, content="good", pieces=rng.range(1, 4))
    liar = Op(1, "Put", "f", expected=exp, content="bad", bad="declares-hash-of-concurrent-honest-put", pieces=rng.range(1, 4), hash_of="good")
    progs = [[honest, Op(0, "Get", "f"), Op(0, "Bye")], [liar, Op(1, "Bye")]]
    if rng.chance(1, 2):
        progs.reverse()
        for i, pr in enumerate(progs):
            for o in pr:
                o.client = i
    return progs, contents, initial


def gen_get_race(rng):
    """Readers of one big committed file while a writer replaces it - with nothing (an emptied file), with one byte,
    with bytes of the same length: a fetch announces a length and a hash and must deliver exactly that, whatever
    the writer does to the path meanwhile."""
    big = (b"big-initial-%s|" % rng.bytes(4).hex().encode()) * 30000
    big = big[: rng.pick([70000, 300 * 1024, 600000])]
    contents = {"init-f": big, "empty": b"", "one": b"1", "same-length": bytes(b ^ 0x20 for b in big)}
    repl = rng.pick(["empty", "empty", "one", "same-length"])
    programs = [[Op(0, "Get", "f", opno=0), Op(0, "Get", "f", opno=1), Op(0, "Bye", opno=99)], [Op(1, "Put", "f", expected="init", content=repl, opno=0), Op(1, "Bye", opno=99)]]
    if rng.chance(1, 2):
        programs.append([Op(2, "Get", "f", opno=0), Op(2, "Bye", opno=99)])
    if rng.chance(1, 3):
        programs[1].insert(1, Op(1, "Put", "f", expected="seen", content="same-length" if repl != "same-length" else "one", opno=1))
    return programs, contents, {"f": "init-f"}


def _c10_worker(args):
    seedv, lo, hi, wroot, mode = args
    res = {"evaluations": 0, "distinct": set(), "viol": [], "counters": {}, "samples": [], "inconclusive": 0}
    cn = res["counters"]

    def cnt(k, n=1):
        cn[k] = cn.get(k, 0) + n

    b3 = B3()
    wd = os.path.join(wroot, "w%d-%s" % (lo, mode if isinstance(mode, str) else "-".join(map(str, mode))))
    for idx in range(lo, hi):
        rng = SplitMix.derive(seedv, "c10", str(mode if isinstance(mode, str) else mode[0]), idx if isinstance(mode, str) else mode[1])
        label = {"mode": mode if isinstance(mode, str) else list(mode), "index": idx}
        badkind = None
        if mode == "badput":
            rng = SplitMix.derive(seedv, "c10bad", idx)
            programs, contents, initial, badkind = gen_bad_put(rng)
            n = 1
            strat = RandomWalk(rng)
        elif mode == "getrace":
            rng = SplitMix.derive(seedv, "c10getrace", idx)
            programs, contents, initial = gen_get_race(rng)
            n = len(programs)
            strat = PCT(rng, 2 * n, d=rng.range(1, 3), horizon=rng.pick([30, 60, 120])) if rng.chance(1, 2) else RandomWalk(rng)
        elif mode == "twinput":
            rng = SplitMix.derive(seedv, "c10twin", idx)
            programs, contents, initial = gen_twin_put(rng)
            n = 2
            strat = PCT(rng, 4, d=rng.range(1, 3), horizon=rng.pick([30, 60, 120])) if rng.chance(1, 2) else RandomWalk(rng)
        elif isinstance(mode, tuple) and mode[0] == "kill":
            # fixed program + fixed base schedule (seeded PCT), KILL at gate k = idx+1 of the victim
            prng = SplitMix.derive(seedv, "c10kill", mode[1])
            n = 2
            programs, contents, initial = gen_programs(prng, n, big_ok=True, kinds=["Put"] * 6 + ["Delete"] * 2 + ["Get"] * 2, nshared=1)
            victim = mode[2]
            strat = KillAt(PCT(SplitMix.derive(seedv, "c10killsched", mode[1]), 2 * n, d=2, horizon=60), victim, idx + 1)
        else:
            n = rng.pick([2, 2, 3])
            programs, contents, initial = gen_programs(rng, n, big_ok=rng.chance(2, 3), kinds=["Put"] * 8 + ["Delete"] * 2 + ["Get"] * 7 + ["List"] * 2)
            strat = PCT(rng, 2 * n, d=rng.range(1, 3), horizon=rng.pick([40, 120, 300])) if mode == "pct" else RandomWalk(rng, kill_prob=rng.pick([0, 0, 15]))
        if badkind == "short-then-eof-hash-of-short":
            pass
        mon = StepMonitor("C10")
        run = HubRun(wd, n, programs, contents, initial, strat, rng, on_step=mon, b3=b3)
        run.plant_staging = mode in ("pct", "random") and rng.chance(1, 4)
        if mode in ("pct", "random", "twinput") and rng.chance(1, 4):
            run.root_alias = {i: rng.pick(["", "/.", "//", "/./"]) for i in range(n)}
        if badkind or mode == "twinput":
            # resolve bad-put hashes that depend on other contents
            for op in [o for pr in programs for o in pr]:
                if op.extra.get("hash_of"):
                    op.extra["declared_hash"] = b3.data(contents[op.extra["hash_of"]])
                if op.extra.get("bad") == "len-zero-with-body-hash-of-body":
                    pass
        run.run()
        if run.inconclusive:
            res["inconclusive"] += 1
            cnt("inconclusive[%s]" % run.inconclusive.split(":")[0][:40])
            if isinstance(mode, tuple) and mode[0] == "kill":
                continue
            continue
        if isinstance(mode, tuple) and mode[0] == "kill" and not run.kills:
            # k is beyond the victim's last gate: the sweep for this program is complete
            cnt("kill_sweep_end_reached")
            continue
        res["evaluations"] += 1
        found = []
        for sig, det in dedupe(mon.viol):
            found.append((sig, schedule_report(run, det)))
        check_gets(run, found)
        cnt("snapshots_taken", mon.snapshots)
        cnt("files_classified", mon.files_classified)
        cnt("steps", run.step)
        for (st, si, gop, gpath) in run.kills:
            cnt("kills_before[%s]" % gop)
        # Gets overlapped by a commit on the same path
        gets = [o for o in run.history if o.kind == "Get" and o.call is not None]
        commits = [o for o in run.history if o.kind in ("Put", "Delete") and o.reply and (o.reply.get("committed") or o.reply.get("deleted"))]
        overl = any(g.path == c.path and g.client != c.client and c.call <= (g.ret or INF) and g.call <= c.ret for g in gets for c in commits)
        if overl:
            cnt("gets_overlapped_by_a_commit")
        ov, stag, _ = overlap_stats(run, cn)
        if mode == "twinput":
            cnt("twin_put_schedules")
            liar = [o for o in run.history if o.extra.get("bad")]
            if liar and liar[0].reply and liar[0].reply.get("kind") == "PutResult" and liar[0].reply.get("committed"):
                found.append(("C10|malformed-put-acknowledged|declares-hash-of-concurrent-honest-put", schedule_report(run, {"op": liar[0].brief()})))
            if stag or ov:
                res["distinct"].add("twin|" + run.interleaving_key())
        if badkind:
            cnt("bad_puts[%s]" % badkind)
            bads = [o for o in run.history if o.extra.get("bad")]
            bad = bads[0]
            tree = walk_root(run.root)
            rk = bad.reply.get("kind") if bad.reply else None
            for bo in bads:
                cur = tree.get(bo.path, (None,))[0]
                want = ident(contents[initial[bo.path]]) if bo.path in initial else None
                if cur != want:
                    found.append(("C10|malformed-put-changed-live-path|" + badkind, schedule_report(run, {"op": bo.brief(), "path": bo.path})))
                if bo is not bad and bo.reply and bo.reply.get("kind") == "PutResult":
                    found.append(("C10|malformed-put-acknowledged|" + badkind, schedule_report(run, {"op": bo.brief()})))
            # nothing else listable may have appeared for it either
            for rel in tree:
                if rel.endswith(STAGING) or rel in initial or rel == "other":
                    continue
                found.append(("C10|malformed-put-created-path|" + badkind, schedule_report(run, {"path": rel, "op": bad.brief()})))
            if rk == "PutResult":
                found.append(("C10|malformed-put-acknowledged|" + badkind, schedule_report(run, {"op": bad.brief()})))
            res["distinct"].add("badput|%s|%s" % (badkind, rk))
        elif run.kills:
            res["distinct"].add("kill|%s|%s" % (run.kills[0][2], run.interleaving_key()))
        elif stag or overl:
            res["distinct"].add(run.interleaving_key())
        for sig, det in found:
            det["label"] = label
            res["viol"].append((sig, det))
        if len(res["samples"]) < 1:
            res["samples"].append({"label": label, "steps": run.step, "snapshots": mon.snapshots, "kills": [list(map(str, k)) for k in run.kills], "history": [o.brief() for o in run.history if o.kind != "Bye"][:5]})
    b3.close()
    rmtree(wd)
    return res


# ------------------------------------------------------------------ C10: a successor with the pid of a killed server
def _c10_samepid_worker(args):
    """One program per index: a server (pid P inside its own pid namespace) is killed before its k-th mutating call,
    for every k; then a NEW server that has the SAME pid P serves lying Puts (declared hash of other bytes) to every
    path the victim touched, then honest ones. Whatever the victim left under its staging names belongs to the
    successor's name space now; no listable path may change through a refused Put, and honest Puts must land."""
    seedv, idx, wroot = args
    res = {"evaluations": 0, "distinct": set(), "viol": [], "counters": {}, "samples": [], "inconclusive": 0}
    cn = res["counters"]

    def cnt(k, n=1):
        cn[k] = cn.get(k, 0) + n

    b3 = B3()
    rng = SplitMix.derive(seedv, "c10samepid", idx)
    wd = os.path.join(wroot, "sp%d" % idx)
    home = os.path.join(wd, "home")
    root = os.path.join(wd, "hub")
    env = base_env(home)

    def blob(tag, size):
        return (b"%s-%d-" % (tag.encode(), idx)) + rng.bytes(8).hex().encode() + bytes(rng.bytes(max(0, size - 30)))

    sz = lambda: rng.pick([40, 5000, 70000, 300000])
    old_path = rng.pick(["old", "d/old", "o l d"])
    new_path = rng.pick(["fresh", "d/fresh", "e/f/fresh"])
    initial = {old_path: blob("init", sz())}
    c_new, c_old2 = blob("create", sz()), blob("replace", sz())
    h = lambda d: b3.data(d)
    victim_ops = [("put", new_path, None, c_new), ("put", old_path, h(initial[old_path]), c_old2)]
    if rng.chance(1, 2):
        victim_ops.reverse()
    if rng.chance(1, 3):
        victim_ops.append(("delete", new_path, h(c_new), None))
    data = cbor.MAGIC + cbor.req_hello()
    for kind, pth, exp, body in victim_ops:
        data += (cbor.req_put(pth, exp, len(body), h(body)) + body) if kind == "put" else cbor.req_delete(pth, exp)
    data += cbor.req_bye()
    allowed = {old_path: {ident(initial[old_path]), ident(c_old2)}, new_path: {None, ident(c_new)}}
    k = 0
    states = set()
    while True:
        k += 1
        if k > 200:
            res["inconclusive"] += 1
            break
        materialise(root, initial)
        rmtree(home)
        os.makedirs(home)
        t1 = os.path.join(wd, "t1")
        for f in os.listdir(wd):
            if f.startswith("t1.") or f.startswith("t2.") or f.startswith("t3."):
                os.unlink(os.path.join(wd, f))
        r1 = session(root, data, env, trace=t1, pidns=True, kill_at=k)
        tr = read_traces(t1)
        if r1["timed_out"]:
            res["inconclusive"] += 1
            break
        killed = [e for pid in tr for e in tr[pid] if e.op == "KILL"]
        if not killed:
            break
        res["evaluations"] += 1
        vpid = list(tr)[0]
        label = {"program": idx, "k": k, "killed_before": "%s %s" % (killed[0].extra, os.path.relpath(killed[0].p1, root) if killed[0].p1 and killed[0].p1.startswith(root) else killed[0].p1), "victim_pid": vpid, "victim_ops": [(a, b_) for a, b_, _, _ in victim_ops]}
        cnt("kills_before[%s]" % killed[0].extra)

        def judge(when, expect_same=None):
            tree = walk_root(root)
            for rel, (idv, _sz) in tree.items():
                if rel.endswith(STAGING):
                    continue
                if rel not in allowed:
                    res["viol"].append(("C10|same-pid-successor|unexpected-listable-path", dict(label, when=when, path=rel)))
                elif idv not in allowed[rel]:
                    res["viol"].append(("C10|same-pid-successor|path-holds-unverified-or-partial-bytes", dict(label, when=when, path=rel)))
            if expect_same is not None:
                for rel in set(expect_same) | set(tree):
                    if rel.endswith(STAGING):
                        continue
                    if tree.get(rel, (None,))[0] != expect_same.get(rel, (None,))[0]:
                        res["viol"].append(("C10|same-pid-successor|refused-put-changed-a-listable-path", dict(label, when=when, path=rel)))
            return tree

        after_kill = judge("after-kill")
        leftovers = sorted(rel for rel in after_kill if rel.endswith(STAGING))
        if leftovers:
            cnt("kills_leaving_a_staging_file")
        # the successor: same pid, lying Puts (the declared hash is the hash of OTHER bytes of the same length)
        lies = cbor.MAGIC + cbor.req_hello()
        for pth in (new_path, old_path):
            cur = after_kill.get(pth)
            curh = None
            if cur is not None:
                with open(os.path.join(root, pth), "rb") as f:
                    curh = h(f.read())
            truth = blob("truth", rng.pick([40, 5000, 70000]))
            lie = bytes(x ^ 0x55 for x in truth)
            lies += cbor.req_put(pth, curh, len(lie), h(truth)) + lie
        lies += cbor.req_list() + cbor.req_bye()
        t2 = os.path.join(wd, "t2")
        r2 = session(root, lies, env, trace=t2, pidns=True)
        tr2 = read_traces(t2)
        spid = list(tr2)[0] if tr2 else None
        if spid != vpid:
            cnt("successor_pid_differs")  # the clause under test was not exercised
        else:
            cnt("successors_with_the_victims_pid")
        reps, _ = parse_replies(r2["out"])
        if any(rp.get("kind") == "PutResult" for rp in reps):
            res["viol"].append(("C10|same-pid-successor|malformed-put-acknowledged", dict(label, replies=[rp.get("kind") for rp in reps])))
        after_lies = judge("after-lying-puts", expect_same=after_kill)
        # honest Puts by a third server with that pid: they must land whatever is lying around
        fin = {new_path: blob("fin1", sz()), old_path: blob("fin2", sz())}
        hon = cbor.MAGIC + cbor.req_hello()
        for pth in (new_path, old_path):
            curh = None
            if pth in after_lies:
                with open(os.path.join(root, pth), "rb") as f:
                    curh = h(f.read())
            hon += cbor.req_put(pth, curh, len(fin[pth]), h(fin[pth])) + fin[pth]
        hon += cbor.req_get(new_path) + cbor.req_bye()
        r3 = session(root, hon, env, trace=os.path.join(wd, "t3"), pidns=True)
        reps3, _ = parse_replies(r3["out"])
        puts3 = [rp for rp in reps3 if rp.get("kind") == "PutResult"]
        tree = walk_root(root)
        if len(puts3) == 2 and all(rp.get("committed") for rp in puts3):
            for pth in fin:
                if tree.get(pth, (None,))[0] != ident(fin[pth]):
                    res["viol"].append(("C10|same-pid-successor|acknowledged-put-is-not-the-live-content", dict(label, path=pth)))
        else:
            res["viol"].append(("C10|same-pid-successor|honest-put-after-a-kill-not-committed", dict(label, replies=[(rp.get("kind"), rp.get("committed"), str(rp.get("message", ""))[:80]) for rp in reps3])))
        states.add((k, tuple(leftovers), tuple(sorted((rel, v[0]) for rel, v in after_kill.items()))))
    cnt("kill_points", k - 1)
    for st in states:
        res["distinct"].add("samepid|%d|%x" % (idx, hash(st) & 0xFFFFFFFF))
    res["samples"].append({"program": idx, "kill_points": k - 1, "victim_ops": [(a, b_) for a, b_, _, _ in victim_ops]})
    b3.close()
    rmtree(wd)
    return res


# ------------------------------------------------------------------ C10: one failing file-system call on the hub side
def _c10_diskfault_worker(args):
    """One session per (program, k): the k-th mutating libc call of the server fails once with ENOSPC / EIO / EDQUOT
    (not executed), for every k. "At every instant every listable path holds the initial content or the complete,
    verified bytes of one write" does not depend on why a write went wrong: afterwards every listable path must hold
    one of those, and a Put acknowledged as committed must be the live content (unless a later Put replaced it)."""
    seedv, idx, wroot = args
    res = {"evaluations": 0, "distinct": set(), "viol": [], "counters": {}, "samples": [], "inconclusive": 0}
    cn = res["counters"]

    def cnt(k, n=1):
        cn[k] = cn.get(k, 0) + n

    b3 = B3()
    rng = SplitMix.derive(seedv, "c10diskfault", idx)
    wd = os.path.join(wroot, "df%d" % idx)
    home = os.path.join(wd, "home")
    root = os.path.join(wd, "hub")
    env = base_env(home)

    def blob(tag, size):
        return (b"%s-%d-" % (tag.encode(), idx)) + rng.bytes(8).hex().encode() + bytes(rng.bytes(max(0, size - 30)))

    sz = lambda: rng.pick([1, 40, 3001, 5000, 65536, 70000, 262144, 300000, 600000])
    h = lambda d: b3.data(d)
    old_path = rng.pick(["old", "d/old"])
    new_path = rng.pick(["fresh", "d/fresh", "e/f/fresh"])
    initial = {old_path: blob("init", sz())}
    puts = [(new_path, None, blob("create", sz())), (old_path, h(initial[old_path]), blob("replace", sz()))]
    if rng.chance(1, 2):
        puts.reverse()
    if rng.chance(1, 2):
        puts.append((new_path, h([c for p_, _, c in puts if p_ == new_path][0]), blob("again", sz())))
    data = cbor.MAGIC + cbor.req_hello()
    for pth, exp, body in puts:
        data += cbor.req_put(pth, exp, len(body), h(body)) + body
    data += cbor.req_get(old_path) + cbor.req_list() + cbor.req_bye()
    allowed = {old_path: {ident(initial[old_path])}, new_path: {None}}
    for pth, _, body in puts:
        allowed[pth].add(ident(body))
    errno_ = rng.pick([28, 28, 5, 122])
    k = 0
    outcomes = set()
    while True:
        k += 1
        if k > 300:
            res["inconclusive"] += 1
            break
        materialise(root, initial)
        rmtree(home)
        os.makedirs(home)
        for f in os.listdir(wd):
            if f.startswith("t1."):
                os.unlink(os.path.join(wd, f))
        r1 = session(root, data, env, trace=os.path.join(wd, "t1"), fail_at="%d:%d" % (k, errno_))
        if r1["timed_out"]:
            res["inconclusive"] += 1
            break
        tr = read_traces(os.path.join(wd, "t1"))
        failed = [e for pid in tr for e in tr[pid] if e.op == "FAIL"]
        if not failed:
            break
        res["evaluations"] += 1
        fe = failed[0]
        label = {"program": idx, "k": k, "errno": errno_, "failed_call": "%s %s" % (fe.extra, os.path.relpath(fe.p1, root) if fe.p1 and fe.p1.startswith(root) else fe.p1), "puts": [(p_, len(c)) for p_, _, c in puts]}
        cnt("failed_calls[%s]" % fe.extra)
        if r1["signal"] is not None:
            res["viol"].append(("C10|hub-disk-fault|server-died-by-signal-%d" % r1["signal"], dict(label)))
        reps, _ = parse_replies(r1["out"])
        tree = walk_root(root)
        for rel, (idv, _sz) in tree.items():
            if rel.endswith(STAGING):
                continue
            if rel not in allowed:
                if ".conflict-" in rel:
                    continue  # a conflict-copy of a Put whose expectation no longer held after the fault
                res["viol"].append(("C10|hub-disk-fault|unexpected-listable-path", dict(label, path=rel)))
            elif idv not in allowed[rel]:
                res["viol"].append(("C10|hub-disk-fault|path-holds-unverified-or-partial-bytes", dict(label, path=rel, size=_sz)))
        for rel in allowed:
            if None not in allowed[rel] and rel not in tree:
                res["viol"].append(("C10|hub-disk-fault|path-vanished", dict(label, path=rel)))
        # replies arrive in request order; a session that ended early answers a prefix
        putreps = [rp for rp in reps if rp.get("kind") in ("PutResult", "Error")][: len(puts)]
        last_ack = {}
        for (pth, _, body), rp in zip(puts, putreps):
            if rp.get("kind") == "PutResult" and rp.get("committed"):
                last_ack[pth] = body
            elif rp.get("kind") == "PutResult":
                last_ack.pop(pth, None)
        answered = len(putreps)
        for pth, body in last_ack.items():
            later_unanswered = any(p_ == pth for p_, _, _ in puts[answered:])
            if not later_unanswered and tree.get(pth, (None,))[0] != ident(body):
                res["viol"].append(("C10|hub-disk-fault|acknowledged-put-is-not-the-live-content", dict(label, path=pth)))
        outcomes.add((fe.extra, tuple(rp.get("kind") for rp in reps), tuple(sorted((rel, v[0]) for rel, v in tree.items() if not rel.endswith(STAGING)))))
    cnt("fault_points", k - 1)
    for oc in outcomes:
        res["distinct"].add("diskfault|%d|%x" % (idx, hash(oc) & 0xFFFFFFFF))
    res["samples"].append({"program": idx, "fault_points": k - 1, "errno": errno_})
    b3.close()
    rmtree(wd)
    return res


def c10(tier):
    build("cli", "shim", "vh")
    r = Result("C10", "exploration", "one evaluation = one gated schedule (as C03, with more Gets, larger contents and kills) or one (program, k) of a kill sweep or one malformed Put; after EVERY scheduling step ROOT is walked and every listable non-staging file must be byte-identical to its initial content or to one complete Put whose streamed bytes hashed to its declared hash (unique contents make membership exact); kill sweeps answer KILL at gate k of a server for every k of a fixed program and base schedule; malformed Puts (wrong hash, short content then EOF with the hash of the full or of the short bytes, length larger/smaller than sent) must change no listable path and not be acknowledged; every Get reply must deliver exactly len bytes hashing to the announced hash with the stream staying in step; distinct non-trivial = step sequences with overlapping staging or a Get overlapped by a commit, kills by gate kind, malformed-Put kinds by reply")
    th = tier == "thorough"
    wroot = workdir("c10")
    jobs = []
    for mode, n in (("pct", 9000 if th else 420), ("random", 6000 if th else 280), ("badput", 1200 if th else 120), ("twinput", 6000 if th else 400), ("getrace", 5000 if th else 400)):
        per = max(1, n // (NCPU * 2))
        for lo in range(0, n, per):
            jobs.append((seed(), lo, min(n, lo + per), wroot, mode))
    nsweeps = 40 if th else 2
    for sw in range(nsweeps):
        for victim in (0, 1):
            # gates per server are ~40-120; stop is detected per k (no kill happened)
            for lo in range(0, 160, 10):
                jobs.append((seed(), lo, lo + 10, wroot, ("kill", sw + seed() * 1000, victim)))
    fold(r, run_jobs(_c10_worker, jobs))
    nsp = 64 if th else 10
    fold(r, run_jobs(_c10_samepid_worker, [(seed(), i + (seed() * 1000 if not th else 0), wroot) for i in range(nsp)]))
    r.extra["same_pid_successor_programs"] = nsp
    ndf = 96 if th else 12
    fold(r, run_jobs(_c10_diskfault_worker, [(seed(), i + (seed() * 1000 if not th else 0), wroot) for i in range(ndf)]))
    r.extra["hub_disk_fault_programs"] = ndf
    rmtree(wroot)
    r.extra["kill_sweeps"] = {"programs": nsweeps, "victims_per_program": 2, "k_range": "1..160 (sweep ends at the victim's last gate)"}
    r.assumptions = ["kills land at gates (before libc calls) of the victim server", "sync_all -> nothing is not observable by a process kill; the order 'hash verified before rename' is", "staging names are recognised only by the .copia-tmp suffix"]
    if tier == "thorough":
        asan_stage(r, "C10")
    finish(r, tier)


# ------------------------------------------------------------------ plain (ungated) sessions
PIDNS = ["unshare", "-p", "-f", "--kill-child", "bash", "-c", '"$0" "$@"; exit $?']


def session(root, data, env, trace=None, alloc_floor=None, pieces=None, rlimit_as_kib=None, timeout=30, close_after=True, valgrind=False, pidns=False, kill_at=None, fail_at=None):
    """Feed `data` (bytes, or list of pieces) to one `copia serve root`; returns dict(out, err, code, signal, timed_out).
    pidns: the server runs in a pid namespace of its own, below a shell that is the namespace's init, so that
    its getpid() is the same small number in every such session (a server that has the pid of a killed one)."""
    e = env
    if trace or alloc_floor or kill_at or fail_at:
        e = shim_env(env, log=trace, alloc_floor=alloc_floor, kill_at=kill_at, kill_class="mutating" if kill_at else None, fail_at=fail_at, fail_class="mutating" if fail_at else None)
    argv = [COPIA, "serve", root]
    if pidns:
        argv = PIDNS + argv
    if valgrind:
        from common import COPIA_VG
        argv = [COPIA_VG, "serve", root]
        argv = ["valgrind", "-q", "--error-exitcode=97", "--errors-for-leak-kinds=none", "--leak-check=no"] + argv
        rlimit_as_kib = None
        timeout = max(timeout, 120)
    if os.environ.get("VERIF_VARIANT") == "asan":
        rlimit_as_kib = None  # ASan reserves terabytes of address space
    if rlimit_as_kib:
        # glibc reserves 64 MiB of address space per malloc arena and the runtime starts one worker thread per
        # core: without a cap on arenas the limit under test is reached by bookkeeping alone (seen once in a soak
        # as "failed to allocate an alternative stack")
        e = dict(e, MALLOC_ARENA_MAX="2")
        argv = ["bash", "-c", "ulimit -c 0; ulimit -v %d; exec \"$0\" \"$@\"" % rlimit_as_kib] + argv
    t0 = time.time()
    timed_out = False
    if pieces:
        # our own pipe for stdin: a feeder thread writes the pieces with small pauses and closes it,
        # while communicate() waits for the output under the watchdog
        import threading
        rfd, wfd = os.pipe()
        p = subprocess.Popen(argv, env=e, stdin=rfd, stdout=subprocess.PIPE, stderr=subprocess.PIPE, start_new_session=True)
        os.close(rfd)

        def feeder():
            try:
                for pc in pieces:
                    os.write(wfd, pc)
                    time.sleep(0.002)
            except OSError:
                pass
            finally:
                try:
                    os.close(wfd)
                except OSError:
                    pass

        th = threading.Thread(target=feeder, daemon=True)
        th.start()
        try:
            out, err = p.communicate(timeout=timeout)
        except subprocess.TimeoutExpired:
            timed_out = True
            out, err = b"", b""
    else:
        p = subprocess.Popen(argv, env=e, stdin=subprocess.PIPE, stdout=subprocess.PIPE, stderr=subprocess.PIPE, start_new_session=True)
        try:
            out, err = p.communicate(data, timeout=timeout)
        except subprocess.TimeoutExpired:
            timed_out = True
            out, err = b"", b""
    if timed_out:
        try:
            os.killpg(p.pid, 9)
        except OSError:
            pass
        try:
            o2, e2 = p.communicate(timeout=5)
            out, err = out or o2, err or e2
        except Exception:
            pass
    rc = p.returncode
    return {"out": out, "err": err.decode("utf-8", "replace"), "code": rc if rc is not None and rc >= 0 else None, "signal": -rc if rc is not None and rc < 0 else None, "timed_out": timed_out, "wall": time.time() - t0}


def parse_replies(out):
    ps = cbor.ReplyParser()
    ps.feed(out)
    reps = []
    while True:
        r = ps.next()
        if r is None:
            break
        reps.append(r)
    return reps, ps


# ------------------------------------------------------------------ C11
def gen_probe(rng, exhaustive_index=None):
    comps_alpha = ["..", ".", "", "name", "..x", "x..", "..."]
    if exhaustive_index is not None:
        # all strings of <= 3 components over the 7-symbol alphabet, x leading slash x trailing slash
        i = exhaustive_index
        lead = i % 2
        i //= 2
        trail = i % 2
        i //= 2
        n = 1 + i % 3
        i //= 3
        comps = []
        for _ in range(n):
            comps.append(comps_alpha[i % 7])
            i //= 7
        s = "/".join(comps)
    else:
        n = rng.range(1, 6)
        comps = []
        for _ in range(n):
            k = rng.below(12)
            if k < 7:
                comps.append(comps_alpha[k])
            elif k == 7:
                comps.append("n" * 255)
            elif k == 8:
                comps.append("m" * 300)
            elif k == 9:
                comps.append(rng.pick(["a b", "é", "-rf", "$HOME", "x\ny", "COPIA1", "é" * 150, "€" * 100, "\U0001F600" * 60, "x" + "é" * 120, "xy" + "€" * 80]))
            else:
                comps.append(rng.pick(["dir", "sub", "f"]))
        sep = [rng.pick(["/", "/", "//", "///"]) for _ in range(n - 1)]
        s = comps[0]
        for a, b in zip(sep, comps[1:]):
            s += a + b
        lead = rng.chance(1, 4)
        trail = rng.chance(1, 5)
    if lead:
        s = "/" + s
    if trail:
        s = s + "/"
    if exhaustive_index is None and rng.chance(1, 25):
        # refused paths near the frame bound, and paths whose debug rendering is several times longer
        k = rng.below(4)
        if k == 0:
            s = "../" + "a" * rng.pick([1048500, 1048527, 1048540, 1048555])
        elif k == 1:
            s = "../" + "\x01" * rng.pick([210000, 300000])
        elif k == 2:
            s = "/" + "\\" * rng.pick([525000, 600000])
        else:
            s = "x/../" + "\n\"'" * 180000
    return s


def must_refuse(path):
    return path.startswith("/") or ".." in path.split("/")


def resolve_outside(p, root):
    """True if the path argument lies outside root, lexically or after resolving its parent."""
    if p is None or not p.startswith("/"):
        return False
    lex = os.path.normpath(p)
    def inside(x):
        return x == root or x.startswith(root + "/")
    if not inside(lex):
        return True
    try:
        rp = os.path.realpath(os.path.dirname(p))
        if not inside(rp) and not inside(rp + "/" + os.path.basename(p)) and rp != os.path.dirname(root):
            return True
    except OSError:
        pass
    return False


TOUCHING = ("openr", "openw", "opendir", "rename", "unlink", "rmdir", "mkdir", "symlink", "link", "ftruncate", "utimensat", "futimens", "chmod", "copy_file_range", "write", "pwrite", "writev")


def outside_calls(trace_prefix, root, wd):
    """Multiset of (op, path, succeeded) for calls whose path argument lies outside ROOT."""
    tr = read_traces(trace_prefix)
    out = {}
    for pid in tr:
        for e in tr[pid]:
            if e.op in ("START", "close", "read", "read0", "alloc"):
                continue
            for pth in (e.p1, e.p2):
                if pth and pth.startswith("/") and resolve_outside(pth, root):
                    k = (e.op, pth, e.ret >= 0)
                    out[k] = out.get(k, 0) + 1
    return out


def c11_warmup(b3):
    """Valid requests that are accepted before the probe: whatever the hub remembers about paths it has
    already vetted on this connection must not weaken the check of the next one."""
    w = b"warm-up content"
    h = b3.data(w)
    return [cbor.req_put("dir/w1", None, len(w), h) + w, cbor.req_put("sub/deep/w2", None, len(w), h) + w, cbor.req_get("dir/f"), cbor.req_put("name/w3", None, len(w), h) + w]


def gen_probe_sharing_prefix(rng):
    """Paths that begin with a directory the warm-up has just been allowed to write into and then climb out."""
    pre = rng.pick(["dir/", "sub/deep/", "sub/", "name/", "dir//", "dir/./"])
    ups = "../" * rng.range(1, 4)
    tgt = rng.pick(["secret", "ROOTx/f", "name", "created.txt", "ROOT/seed.txt", "seed.txt", "dir/f", ""])
    return pre + ups + tgt


def c11_tail(b3):
    ok = b"benign content"
    h = b3.data(ok)
    return [cbor.req_list(), cbor.req_put("t/ok", None, len(ok), h) + ok, cbor.req_get("t/ok"), cbor.req_delete("t/ok", h), cbor.req_get("seed.txt"), cbor.req_list(), cbor.req_bye()]


def _c11_worker(args):
    seedv, lo, hi, wroot, exhaustive = args
    res = {"evaluations": 0, "distinct": set(), "viol": [], "counters": {}, "samples": [], "inconclusive": 0}
    cn = res["counters"]

    def cnt(k, n=1):
        cn[k] = cn.get(k, 0) + n

    b3 = B3()
    wd = os.path.join(wroot, "w%d%s" % (lo, "x" if exhaustive else ""))

    def fresh():
        rmtree(wd)
        sent = os.path.join(wd, "sentinel")
        root = os.path.join(sent, "ROOT")
        os.makedirs(root)
        os.makedirs(os.path.join(sent, "ROOTx"))
        open(os.path.join(sent, "secret"), "w").write("secret")
        open(os.path.join(sent, "ROOTx", "f"), "w").write("sibling")
        open(os.path.join(sent, "name"), "w").write("decoy with a probe name")
        open(os.path.join(root, "seed.txt"), "w").write("seed")
        os.makedirs(os.path.join(root, "dir"))
        open(os.path.join(root, "dir", "f"), "w").write("inner")
        home = os.path.join(wd, "home")
        os.makedirs(home)
        return sent, os.path.realpath(root), home

    tail = c11_tail(b3)
    # control session (no probe) once per worker
    sent, root, home = fresh()
    ctl_trace = os.path.join(wd, "ctl")
    ctl = session(root, cbor.MAGIC + cbor.req_hello() + b"".join(tail), base_env(home), trace=ctl_trace)
    ctl_out_calls = outside_calls(ctl_trace, root, wd)
    ctl_reps, _ = parse_replies(ctl["out"])
    ctl_tree = {k: v for k, v in walk_root(root).items()}
    ctl_dirs = tree_dirs(root)
    warmup = c11_warmup(b3)
    sent, root, home = fresh()
    ctlw = session(root, cbor.MAGIC + cbor.req_hello() + b"".join(warmup) + b"".join(tail), base_env(home), trace=ctl_trace + "w")
    ctls = {0: (ctl_out_calls, ctl_reps, ctl_tree, ctl_dirs), len(warmup): (outside_calls(ctl_trace + "w", root, wd), parse_replies(ctlw["out"])[0], {k: v for k, v in walk_root(root).items()}, tree_dirs(root))}
    for idx in range(lo, hi):
        rng = SplitMix.derive(seedv, "c11", idx)
        path = gen_probe(rng, (idx * exhaustive) % 4116 if exhaustive else None)
        nw = 0
        if not exhaustive and idx % 2 == 1:
            nw = len(warmup)
            if rng.chance(2, 3):
                path = gen_probe_sharing_prefix(rng)
            cnt("sessions_with_accepted_requests_before_the_probe")
        ctl_out_calls, ctl_reps, ctl_tree, ctl_dirs = ctls[nw]
        rootspell = None
        if not exhaustive and idx % 7 == 3:
            # an absolute path that spells the served directory itself (joined to the root it comes out "inside")
            rootspell = rng.pick(["/seed.txt", "/dir/f", "/planted.txt", "/newdir/sub/f", "//seed.txt", "/./dir/f", "/../ROOT/seed.txt", ""])
            cnt("probes_spelling_the_served_root")
        for kind in ("Get", "Put", "Delete"):
            sent, root, home = fresh()
            if rootspell is not None:
                path = rng.pick([root, root, os.path.join(os.path.dirname(root), "ROOT"), root.replace("/", "//", 1)]) + rootspell
            s0 = snapshot(sent)
            s0 = {k: v for k, v in s0.items() if not k.startswith("ROOT/")}
            def mk(pth):
                if kind == "Get":
                    return cbor.req_get(pth), b""
                if kind == "Delete":
                    return cbor.req_delete(pth, dexp), b""
                return cbor.req_put(pth, pexp, len(body), b3.data(body)), body

            # expectations and bodies that would be TRUE of the file the path resolves to outside ROOT (the planted
            # sentinels), and the "nothing to do" shape expected == declared hash: a shortcut taken before the path
            # is vetted has something to find there
            outside_contents = [b"secret", b"sibling", b"decoy with a probe name", b"seed"]
            dexp = rng.pick([None, b3.data(b"seed")] + [b3.data(c) for c in outside_contents[:3]])
            body = rng.pick([b"", b"x", b"y" * 300 * 1024, cbor.req_put("evil", None, 1, b3.data(b"z")) + b"z" + cbor.req_delete("seed.txt", None)] + outside_contents)
            pexp = rng.pick([None, b3.data(b"seed"), b3.data(body), b3.data(body)])
            fr, tail_body = mk(path)
            while len(fr) - 4 > MAX_FRAME and len(path) > 16:
                # the request itself must be a legal frame: trim the path until it fits
                path = path[: len(path) - (len(fr) - 4 - MAX_FRAME) - rng.range(0, 40)]
                fr, tail_body = mk(path)
            probe = fr + tail_body
            trace = os.path.join(wd, "tr")
            r = session(root, cbor.MAGIC + cbor.req_hello() + b"".join(warmup[:nw]) + probe + b"".join(tail), base_env(home), trace=trace)
            if r["timed_out"]:
                res["inconclusive"] += 1
                continue
            res["evaluations"] += 1
            label = {"path": path, "kind": kind, "index": idx, "accepted_requests_before_probe": nw}
            oc = outside_calls(trace, root, wd)
            extra = {k: v for k, v in oc.items() if v > ctl_out_calls.get(k, 0)}
            for (op, pth, ok), n in sorted(extra.items()):
                # the property speaks of opening, creating, renaming, removing: a call that SUCCEEDED
                # on something outside ROOT. Failed attempts and stat-like calls are counted only.
                if ok and op in TOUCHING:
                    res["viol"].append(("C11|%s|%s-outside-served-directory" % (kind, op), dict(label, call=op, arg=os.path.relpath(pth, os.path.dirname(root)))))
                elif op in TOUCHING:
                    cnt("failed_attempts_outside_root[%s]" % op)
                else:
                    cnt("stat_like_calls_outside_root[%s]" % op)
            s1 = {k: v for k, v in snapshot(sent).items() if not k.startswith("ROOT/")}
            if s1 != s0:
                ch = sorted(set(s1) ^ set(s0)) or sorted(k for k in s0 if s0[k] != s1.get(k))
                res["viol"].append(("C11|%s|sentinel-tree-changed" % kind, dict(label, changed=ch[:4])))
            reps, ps = parse_replies(r["out"])
            refuse = must_refuse(path)
            if refuse:
                cnt("refusable_probes[%s]" % kind)
                if len(reps) < 2 + nw or reps[1 + nw].get("kind") != "Error":
                    res["viol"].append(("C11|%s|absolute-or-dotdot-path-not-refused" % kind, dict(label, reply=str(reps[1 + nw:2 + nw])[:200])))
                tree = walk_root(root)
                if tree != ctl_tree:
                    res["viol"].append(("C11|%s|refused-request-changed-the-tree" % kind, dict(label, diff=sorted(set(tree.items()) ^ set(ctl_tree.items()))[:4])))
                # "nothing is created for it": not a directory either (List never shows an empty one)
                dirs = tree_dirs(root)
                if dirs != ctl_dirs:
                    res["viol"].append(("C11|%s|refused-request-created-or-removed-a-directory" % kind, dict(label, diff=sorted(dirs ^ ctl_dirs)[:4])))
                # following requests get the replies they would have got without the refused one
                got_tail = [strip(x) for x in reps[2 + nw:]]
                want_tail = [strip(x) for x in ctl_reps[1 + nw:]]
                if got_tail != want_tail or ps.broken:
                    res["viol"].append(("C11|%s|connection-not-usable-after-refusal" % kind, dict(label, got=str(got_tail)[:300], want=str(want_tail)[:300], broken=ps.broken)))
                if r["signal"] is not None:
                    res["viol"].append(("C11|%s|server-died-by-signal" % kind, dict(label, signal=r["signal"])))
            cls = []
            comps = path.strip("/").split("/")
            if ".." in comps:
                cls.append("dotdot")
            if path.startswith("/"):
                cls.append("abs")
            if "//" in path:
                cls.append("dslash")
            if "" == path.strip("/"):
                cls.append("empty")
            if any(len(c) >= 255 for c in comps):
                cls.append("long")
            if any(".." in c and c != ".." for c in comps):
                cls.append("dotdot-substr")
            if "." in comps:
                cls.append("dot")
            if cls and (".." in comps or path.startswith("/") or "//" in path):
                res["distinct"].add("%s|%s" % (kind, ",".join(cls)))
            cnt("probes[%s]" % kind)
            if len(res["samples"]) < 2 and refuse:
                res["samples"].append(dict(label, reply=str(reps[1 + nw:2 + nw])[:120]))
    b3.close()
    rmtree(wd)
    return res


def strip(rep):
    r = dict(rep)
    r.pop("map", None)
    if "bytes" in r:
        r["bytes"] = ident(r["bytes"])
    if rep.get("kind") == "Fingerprints":
        r["paths"] = sorted(rep["map"].items())
    return r


def c11(tier):
    build("cli", "shim", "vh")
    slash_before = set(os.listdir("/"))
    r = Result("C11", "exploration", "one evaluation = one session (prologue, Hello, one probe request with a hostile path string, fixed tail of valid requests) against `copia serve ROOT` under the libc trace, ROOT sitting inside a sentinel directory with decoys; differential attribution: the multiset of calls whose path argument resolves outside ROOT (lexically or via realpath of the parent) must not exceed that of a control session without the probe; sentinel tree unchanged; absolute / `..` paths must draw an Error, change nothing, and leave the tail's replies equal to the control's; paths: exhaustive over <= 3 components of {`..`, `.`, ``, name, `..x`, `x..`, `...`} x leading/trailing slash, random up to 6 components with long names and repeated slashes; x {Get, Put with content, Delete}; distinct non-trivial = (request kind, component classes) of probes containing `..`, absolute, or `//`")
    th = tier == "thorough"
    wroot = workdir("c11")
    jobs = []
    nex = 2 * 2 * 3 * 343  # complete index space (some strings repeat for n < 3)
    nex_run = nex if th else 1000
    per = max(1, nex_run // (NCPU * 2))
    stride = 1 if th else nex // nex_run
    for lo in range(0, nex_run, per):
        jobs.append((seed(), lo, min(nex_run, lo + per), wroot, 1 if th else 9973))
    nrand = 6000 if th else 500
    per = max(1, nrand // (NCPU * 2))
    for lo in range(0, nrand, per):
        jobs.append((seed(), 100000 + lo, 100000 + min(nrand, lo + per), wroot, 0))
    fold(r, run_jobs(_c11_worker, jobs))
    rmtree(wroot)
    r.exhaustive = th
    r.assumptions = ["the served tree has no symlinks leading outside", "runtime noise (/proc, locale, cgroup files) appears in the control session too and cancels", "in the quick tier the exhaustive index space (4116 strings) is sampled with a coprime stride; the thorough tier covers it completely"]
    if tier == "thorough":
        asan_stage(r, "C11")
    # a hub that lets an absolute path through writes to the real file system root (the checks run as root):
    # whatever appeared there during this check is the hub's, is reported above as a call outside ROOT, and is
    # removed again
    stray = sorted(set(os.listdir("/")) - slash_before)
    for nm in stray:
        full = os.path.join("/", nm)
        try:
            if os.path.isdir(full) and not os.path.islink(full):
                shutil.rmtree(full)
            else:
                os.unlink(full)
        except OSError:
            pass
    r.count("stray_entries_removed_from_the_file_system_root", len(stray))
    finish(r, tier)


# ------------------------------------------------------------------ C12
MAX_FRAME = 1 << 20


def raw_frame(body, declared=None):
    return struct.pack(">I", len(body) if declared is None else declared) + body


def valid_session(b3, rng, path="a"):
    """[(name, bytes)] of a short valid session."""
    c = b"session content " + rng.bytes(6).hex().encode() + b"." * rng.pick([0, 10, 5000])
    h = b3.data(c)
    return [("magic", cbor.MAGIC), ("hello", cbor.req_hello()), ("put", cbor.req_put(path, None, len(c), h) + c), ("get", cbor.req_get(path)), ("delete", cbor.req_delete(path, h)), ("list", cbor.req_list()), ("bye", cbor.req_bye())], c


def c12_session_path(rng):
    """Legal relative paths for the well-formed part of a session: final components up to NAME_MAX bytes made
    of 1-4 byte characters at every alignment (the hub appends its own suffixes to them), deep nesting."""
    k = rng.below(4)
    if k == 0:
        ch = rng.pick(["日", "é", "😀", "x"])
        want = rng.range(215, 255)
        pad = "p" * rng.below(len(ch.encode()) + 1)
        name = pad + ch * ((want - len(pad)) // len(ch.encode()))
        return rng.pick(["", "d/"]) + name
    if k == 1:
        return "/".join(rng.pick(["n", "日本", "a b", "x" * 100]) for _ in range(rng.range(2, 30)))
    if k == 2:
        return rng.pick(["a b", "-rf", "it's", "tab\there", "é日", "a.conflict-0123456789ab", "x.1.copia-tmp.keep", "...", "a\\b"])
    return "a"


def gen_c12_input(rng, b3, idx, sweep=None):
    """Returns dict(data, cls, invalid_by_construction, prefixes_sent, expect_file)."""
    spath = "a" if sweep is not None or idx % 3 else c12_session_path(rng)
    sess, content = valid_session(b3, rng, spath)
    full = b"".join(b for _, b in sess)
    if sweep is not None:
        kind, pos = sweep
        if kind == "cut":
            # every cut point of the session
            data = full[:pos]
            inval = pos < len(cbor.MAGIC) + len(cbor.req_hello()) + 4
            return {"data": data, "cls": "cut-point", "invalid": inval, "prefixes": [], "content": content}
    k = rng.below(16)
    prefixes = []
    inval = False
    if k == 15:
        # a complete, harmless request, then a well-FRAMED request whose CBOR body is cut short (the length prefix
        # matches the shortened body): whatever the decoder finds beyond the end of that body is not part of it
        first = rng.pick([cbor.req_delete("../aaaaaaa", cbor_h(b3, b"keep me")), cbor.req_get("no/such/file/at/all"), cbor.req_delete("keepX", cbor_h(b3, b"keep me")), cbor.req_put("../zzzz", None, 0, b3.data(b""))])
        victim = rng.pick([cbor.req_delete("keep", cbor_h(b3, b"keep me")), cbor.req_delete("keep", None), cbor.req_put("planted", None, 0, b3.data(b""))])
        body = victim[4:]
        cut = rng.range(max(1, len(body) - 40), len(body) - 1)
        data = cbor.MAGIC + cbor.req_hello() + first + struct.pack(">I", cut) + body[:cut]
        return {"data": data, "cls": "short-cbor-after-a-longer-frame", "invalid": True, "prefixes": [], "content": content, "path": spath}
    if k == 14:
        # a well-formed Put whose declared length is absurd (arithmetic on it must not wrap): some bytes follow,
        # among them a complete Put frame that must never be carried out, then the input ends
        ln = rng.pick([(1 << 64) - 1, (1 << 64) - 4095, (1 << 64) - 4096, 1 << 63, (1 << 63) - 1, 1 << 40, (1 << 32) - 1, 1 << 32, (1 << 32) + 1])
        decoy = b"decoy"
        tail = rng.pick([b"", b"x" * 100, cbor.req_put("decoy", None, len(decoy), b3.data(decoy)) + decoy, b"y" * 70000])
        data = cbor.MAGIC + cbor.req_hello() + cbor.req_put(rng.pick(["a", "d/new", "keep"]), None, ln, b3.data(b"whatever")) + tail
        return {"data": data, "cls": "put-with-absurd-length", "invalid": False, "prefixes": [], "content": content, "path": spath}
    if k == 13:
        # two things wrong at once: a well-formed Put the hub must refuse (path) AND input that ends inside its
        # content - the refusal's drain must notice the end of input like every other read
        body = b"refused-content-" * rng.pick([1, 40, 5000])
        badp = rng.pick(["../esc", "a/../../esc", "d/../../../esc", "../" + "n" * 200])
        sent = body[: rng.pick([0, 1, len(body) // 2, len(body) - 1])]
        lead = cbor.MAGIC + cbor.req_hello() + (cbor.req_list() if rng.chance(1, 2) else b"")
        data = lead + cbor.req_put(badp, None, len(body), b3.data(body)) + sent
        return {"data": data, "cls": "refused-put-cut-inside-content", "invalid": False, "prefixes": [], "content": content, "path": spath}
    if k == 12 and rng.chance(1, 2):
        # a final frame whose prefix overstates a COMPLETE request body, then EOF: the frame never
        # arrives in full, so the request in it must not be carried out
        body = rng.pick([cbor.enc({"Delete": {"path": "keep", "expected": cbor.h2list(b3.data(b"keep me"))}}), cbor.enc({"Put": {"path": "planted", "expected": None, "len": 0, "hash": cbor.h2list(b3.data(b""))}}), cbor.enc({"Delete": {"path": "keep", "expected": None}})])
        over = rng.pick([1, 2, 7, 100, 4096])
        data = cbor.MAGIC + cbor.req_hello() + struct.pack(">I", len(body) + over) + body
        return {"data": data, "cls": "overstated-prefix-complete-body", "invalid": True, "prefixes": [], "content": content}
    if k == 12:
        # stdin closed inside a length prefix whose bytes so far are not all zero
        pre = rng.pick([b"\x01", b"\x00\x01", b"\x00\x00\x01", b"\xff\xff", b"\x00\x10\x00", b"\x7f"])
        lead = rng.pick([cbor.MAGIC, cbor.MAGIC + cbor.req_hello(), cbor.MAGIC + cbor.req_hello() + cbor.req_list()])
        data = lead + pre
        cls, inval = "eof-inside-length-prefix", lead == cbor.MAGIC
    elif k == 0:
        data = rng.bytes(rng.range(0, 200))
        if data[:6] == cbor.MAGIC:
            data = b"X" + data
        cls, inval = "random", True
    elif k == 1:
        banner = rng.pick([b"Welcome to host\n", b"SSH-2.0-OpenSSH\r\n", b"\x00", b"copia1", b"COPIA2", b"COPIA", b"COPIA\x31"[:5] + b"\x00", b" COPIA1"])
        data = banner + (full[len(cbor.MAGIC):] if banner in (b"copia1", b"COPIA2") else full)
        cls, inval = "banner-or-near-miss-magic", True
    elif k == 2:
        L = rng.pick([0, 1, MAX_FRAME - 1, MAX_FRAME, MAX_FRAME + 1, 1 << 24, 1 << 31, (1 << 32) - 1])
        body = rng.bytes(rng.pick([0, 0, 5, 100]))
        data = cbor.MAGIC + struct.pack(">I", L) + body
        if L > MAX_FRAME:
            prefixes.append(L)
        cls = "length-prefix"
        inval = True  # a first frame that cannot complete or cannot decode as a request
        if L == len(body):
            inval = L < 1  # could it decode? random bytes of len 1/5/100: not a request (checked by reply below)
            inval = True
    elif k == 3:
        # after a valid hello: oversize prefix with and without body
        L = rng.pick([MAX_FRAME + 1, 1 << 24, 1 << 31, (1 << 32) - 1])
        data = cbor.MAGIC + cbor.req_hello() + struct.pack(">I", L) + rng.bytes(rng.pick([0, 64]))
        prefixes.append(L)
        cls = "oversize-prefix-after-hello"
    elif k == 4:
        major = rng.pick([2, 3, 4, 5])
        b = cbor.head(major, rng.pick([1 << 20, 1 << 32, 1 << 40, (1 << 63) - 1, (1 << 64) - 1])) + rng.bytes(rng.range(0, 16))
        data = cbor.MAGIC + cbor.req_hello() + raw_frame(b) + cbor.req_list()
        cls = "cbor-huge-declared-length"
    elif k == 5:
        depth = rng.pick([10, 100, 1000, 10_000, 100_000, 500_000])
        unit = rng.pick([b"\x81", b"\xa1\x00", b"\xc1", b"\x9f", b"\xbf\x00"])
        b = (unit * depth + b"\x00")[: MAX_FRAME - 1]
        data = cbor.MAGIC + cbor.req_hello() + raw_frame(b) + cbor.req_list()
        cls = "cbor-deep-nesting"
    elif k == 6:
        odd = rng.pick([b"\x9f\x01\xff", b"\xbf\x61\x61\x01\xff", b"\x7f\x61\x61\xff", b"\x64Nope", b"\xa1\x63Get\x01", b"\xf6", b"\xa1\x63Get\xa2\x64path\x61x\x65extra\x01", b"\xa1\x63Put\xa1\x64path\x61x", b"\xa2\x63Get\xa1\x64path\x61x\x64List\xf6"])
        data = cbor.MAGIC + cbor.req_hello() + raw_frame(odd) + cbor.req_list()
        cls = "cbor-odd-items"
    elif k == 7:
        n = rng.pick([1000, 65536, MAX_FRAME - 64])
        b = cbor.enc({"Get": {"path": "a" * n}})
        data = cbor.MAGIC + cbor.req_hello() + raw_frame(b) + cbor.req_list()
        cls = "long-path"
    elif k == 8:
        # mutate bytes of the session after the prologue
        d = bytearray(full)
        for _ in range(rng.range(1, 4)):
            at = rng.range(len(cbor.MAGIC), len(d) - 1)
            d[at] = rng.below(256)
        data = bytes(d)
        cls = "session-bytes-mutated"
    elif k == 9:
        parts = [b for _, b in sess]
        i = rng.range(1, len(parts) - 2)
        if rng.chance(1, 2):
            parts.insert(i, parts[i])
            cls = "frame-duplicated"
        else:
            parts[i], parts[i + 1] = parts[i + 1], parts[i]
            cls = "frames-reordered"
        data = b"".join(parts)
    elif k == 10:
        # truncated inside one of the first three frames
        lim = len(cbor.MAGIC) + len(sess[1][1]) + len(sess[2][1]) + len(sess[3][1])
        pos = rng.range(0, lim)
        data = full[:pos]
        cls = "session-truncated"
        inval = pos < len(cbor.MAGIC) + len(sess[1][1]) + 4
    else:
        data = full
        cls = "valid-session"
    return {"data": data, "cls": cls, "invalid": inval, "prefixes": prefixes, "content": content, "path": spath}


def cbor_h(b3, data):
    return b3.data(data)


def c12_verdicts(r, trace, root, inp, viol, cnt, label):
    err = r["err"]
    if r["signal"] is not None:
        viol("C12|serve|died-by-signal-%d|%s" % (r["signal"], inp["cls"]), dict(label, stderr=err[-300:]))
    if "panicked" in err:
        viol("C12|serve|panic-message|%s" % inp["cls"], dict(label, stderr=err[-300:]))
    tr = read_traces(trace)
    evs = [e for pid in tr for e in tr[pid]]
    zero_reads = sum(1 for e in evs if e.op == "read0" and e.ret == 0)
    cnt("max_zero_length_reads", zero_reads)
    if zero_reads > 3:
        viol("C12|serve|keeps-reading-closed-stdin", dict(label, zero_length_reads=zero_reads, timed_out=r["timed_out"]))
    elif r["timed_out"]:
        return "inconclusive"
    allocs = [int(e.extra.split("=")[1]) for e in evs if e.op == "alloc" and "=" in e.extra]
    for L in inp["prefixes"]:
        big = [a for a in allocs if a >= L]
        if big:
            viol("C12|serve|allocation>=oversize-length-prefix", dict(label, prefix=L, allocation=max(big)))
    if allocs:
        cnt("runs_with_allocations_over_512KiB")
    return "ok"


def tree_dirs(root):
    out = set()
    for d, sub, _ in os.walk(root):
        for x in sub:
            out.add(os.path.relpath(os.path.join(d, x), root))
    return {x for x in out if x != ".copia" and not x.startswith(".copia/")}


def tree_without_control(root):
    return {k: v for k, v in walk_root(root).items()}


def _c12_worker(args):
    seedv, lo, hi, wroot, mode = args
    res = {"evaluations": 0, "distinct": set(), "viol": [], "counters": {}, "samples": [], "inconclusive": 0}
    cn = res["counters"]

    def cnt(k, n=1):
        if k.startswith("max_"):
            cn[k] = max(cn.get(k, 0), n)
        else:
            cn[k] = cn.get(k, 0) + n

    b3 = B3()
    wd = os.path.join(wroot, "w%d%s" % (lo, mode))
    for idx in range(lo, hi):
        rng = SplitMix.derive(seedv, "c12", mode, idx)
        rmtree(wd)
        root = os.path.join(wd, "ROOT")
        home = os.path.join(wd, "home")
        os.makedirs(home)
        pre_exists = rng.chance(1, 2)
        if pre_exists:
            os.makedirs(root)
            open(os.path.join(root, "keep"), "w").write("keep me")
            if rng.chance(2, 3):
                # a lived-in hub: staging files stranded by killed sessions, a user's own file with the reserved
                # suffix, a conflict-copy, an empty directory, control-directory contents
                for rel, body in (("data/b.bin.4242.copia-tmp", b"stranded staging bytes"), ("sub/report.copia-tmp", b"a user's own file"), ("keep.7.copia-tmp", b""), ("a.conflict-0123456789ab", b"an earlier loser"), (".copia/old.lock", b""), ("emptydir/.placeholder", None)):
                    full = os.path.join(root, rel)
                    os.makedirs(os.path.dirname(full), exist_ok=True)
                    if body is not None:
                        open(full, "wb").write(body)
                cnt("sessions_on_a_lived_in_tree")
        found = []

        def viol(sig, det):
            found.append((sig, det))

        trace = os.path.join(wd, "tr")
        if mode == "resync":
            # a well-framed request that draws an Error, then a valid tail; control = tail only
            os.makedirs(root, exist_ok=True)
            open(os.path.join(root, "keep"), "w").write("keep me")
            bad_body = b"mismatching content " + rng.bytes(4).hex().encode() + b"#" * rng.pick([0, 300 * 1024])
            errs = {
                "get-not-found": cbor.req_get("no/such"),
                "get-bad-path": cbor.req_get("../x"),
                "get-absolute": cbor.req_get("/etc/passwd"),
                "put-hash-mismatch": cbor.req_put("z", None, len(bad_body), b3.data(b"other")) + bad_body,
                # refused Puts that touch what the valid tail is about to use: its directory (which does not exist yet),
                # its very path, a directory below; whatever the refused request created, remembered or cleaned up on
                # the way must not change what the tail gets
                "put-hash-mismatch-in-the-tails-new-directory": cbor.req_put("t/bad", None, len(bad_body), b3.data(b"other")) + bad_body,
                "put-hash-mismatch-at-the-tails-path": cbor.req_put("t/ok", None, len(bad_body), b3.data(b"other")) + bad_body,
                "put-hash-mismatch-below-the-tails-new-directory": cbor.req_put("t/deeper/still/bad", None, len(bad_body), b3.data(b"other")) + bad_body,
                "put-hash-mismatch-twice-in-the-tails-new-directory": cbor.req_put("t/bad", None, len(bad_body), b3.data(b"other")) + bad_body + cbor.req_put("t/bad2", None, 3, b3.data(b"other")) + b"abc",
                "put-bad-path-with-content": cbor.req_put("../z", None, len(bad_body), b3.data(bad_body)) + bad_body,
                "put-bad-path-content-looks-like-frames": cbor.req_put("/z", None, len(cbor.req_delete("keep", None)), b3.data(cbor.req_delete("keep", None))) + cbor.req_delete("keep", None),
                "delete-bad-path": cbor.req_delete("../keep", None),
                "get-directory": cbor.req_get("."),
                # requests the hub cannot carry out for file-system reasons: it may end the session, but if it
                # answers with an Error the content bytes must have been consumed
                "put-parent-is-a-file": cbor.req_put("keep/x", None, len(bad_body), b3.data(bad_body)) + bad_body,
                "put-parent-is-a-file-content-looks-like-frames": cbor.req_put("keep/x", None, len(cbor.req_delete("keep", None) + cbor.req_put("smuggled", None, 1, b3.data(b"s")) + b"s"), b3.data(cbor.req_delete("keep", None) + cbor.req_put("smuggled", None, 1, b3.data(b"s")) + b"s")) + cbor.req_delete("keep", None) + cbor.req_put("smuggled", None, 1, b3.data(b"s")) + b"s",
                "put-name-too-long": cbor.req_put("n" * 300, None, len(bad_body), b3.data(bad_body)) + bad_body,
                "put-onto-a-directory": cbor.req_put("adir", None, len(bad_body), b3.data(bad_body)) + bad_body,
            }
            os.makedirs(os.path.join(root, "adir", "inner"), exist_ok=True)
            ek = sorted(errs)[idx % len(errs)]
            tail = c11_tail(b3)
            rc = root + ".ctl"
            shutil.copytree(root, rc)
            ctl = session(os.path.realpath(rc), cbor.MAGIC + cbor.req_hello() + b"".join(tail), base_env(home))
            r = session(os.path.realpath(root), cbor.MAGIC + cbor.req_hello() + errs[ek] + b"".join(tail), base_env(home), trace=trace)
            res["evaluations"] += 1
            label = {"mode": "resync", "error_request": ek, "index": idx}
            reps, ps = parse_replies(r["out"])
            creps, _ = parse_replies(ctl["out"])
            may_end_session = ek.startswith("put-parent") or ek in ("put-name-too-long", "put-onto-a-directory")
            session_ended = len(reps) < 2 and not ps.broken
            if session_ended and may_end_session:
                cnt("resync_sessions_ended_by_the_hub[%s]" % ek)
                if r["signal"] is not None or "panicked" in r["err"]:
                    viol("C12|resync|session-ended-by-crash|" + ek, dict(label, signal=r["signal"], stderr=r["err"][-200:]))
                # nothing of the unanswered tail may have been carried out, and the content must not have been executed
                tree = walk_root(os.path.realpath(root))
                base = {k: v for k, v in walk_root(os.path.realpath(rc)).items()}
                if "smuggled" in tree or "keep" not in tree:
                    viol("C12|resync|content-bytes-executed-as-requests|" + ek, dict(label, tree=sorted(tree)))
            else:
                if len(reps) < 2 or reps[1].get("kind") != "Error":
                    if not (may_end_session and len(reps) >= 2 and reps[1].get("kind") == "PutResult"):
                        viol("C12|resync|request-did-not-draw-an-error|" + ek, dict(label, reply=str(reps[1:2])[:200]))
                nerr = 2 if "-twice-" in ek else 1
                if nerr == 2 and len(reps) >= 2 and reps[1].get("kind") == "Error" and (len(reps) < 3 or reps[2].get("kind") != "Error"):
                    viol("C12|resync|request-did-not-draw-an-error|" + ek, dict(label, reply=str(reps[2:3])[:200]))
                elif len(reps) >= 2 and reps[1].get("kind") == "Error":
                    got = [strip(x) for x in reps[1 + nerr:]]
                    want = [strip(x) for x in creps[1:]]
                    if got != want or ps.broken:
                        viol("C12|resync|stream-out-of-step-after-error|" + ek, dict(label, got=str(got)[:300], want=str(want)[:300], broken=ps.broken))
                    if walk_root(os.path.realpath(root)) != walk_root(os.path.realpath(rc)):
                        viol("C12|resync|tree-differs-from-control|" + ek, dict(label))
            res["distinct"].add("resync|%s|%s" % (ek, reps[1].get("kind") if len(reps) > 1 else None))
            cnt("resync_sessions[%s]" % ek)
            for sig, det in found:
                res["viol"].append((sig, det))
            continue
        sweep = None
        if mode == "cutsweep":
            sweep = ("cut", idx)
            rng = SplitMix.derive(seedv, "c12cut", 0)
        inp = gen_c12_input(rng, b3, idx, sweep)
        if mode == "cutsweep" and idx > len(b"".join(b for _, b in valid_session(b3, SplitMix.derive(seedv, "c12cut", 0))[0])):
            continue
        data = inp["data"]
        before = walk_root(root) if pre_exists else {}
        dirs_before = tree_dirs(root) if pre_exists else set()
        npieces = rng.range(1, 4)
        pieces = None
        if npieces > 1 and len(data) > 1:
            cuts = sorted({rng.range(1, len(data) - 1) for _ in range(npieces - 1)})
            pieces = [data[a:b] for a, b in zip([0] + cuts, cuts + [len(data)])]
        vg = mode == "valgrind"
        r = session(root, data, base_env(home), trace=None if vg else trace, alloc_floor=None if vg else 512 * 1024, pieces=pieces, rlimit_as_kib=1024 * 1024, timeout=15, valgrind=vg)
        if vg and r["code"] == 97:
            viol("C12|serve|valgrind-memcheck-error|" + inp["cls"], {"class": inp["cls"], "index": idx, "stderr": r["err"][-600:]})
        label = {"class": inp["cls"], "index": idx, "mode": mode, "len": len(data), "head": data[:48].hex(), "pieces": npieces}
        v = c12_verdicts(r, trace, root, inp, viol, cnt, label)
        if sum(1 for sg, _ in found if "keeps-reading-closed-stdin" in sg) and r["timed_out"]:
            spins = cn.get("spinning_sessions", 0) + 1
            cn["spinning_sessions"] = spins
            if spins >= 3:
                # the verdict is settled; every further spinning session would cost a full watchdog period
                for sig, det in found:
                    res["viol"].append((sig, det))
                break
        if v == "inconclusive":
            res["inconclusive"] += 1
            continue
        res["evaluations"] += 1
        reps, ps = parse_replies(r["out"])
        after = walk_root(root) if os.path.isdir(root) else {}
        if inp["invalid"]:
            if after != before:
                viol("C12|serve|tree-changed-without-a-valid-request|" + inp["cls"], dict(label, diff=sorted(set(after.items()) ^ set(before.items()))[:4]))
            elif pre_exists and tree_dirs(root) - {".copia"} != dirs_before - {".copia"}:
                viol("C12|serve|directories-changed-without-a-valid-request|" + inp["cls"], dict(label, diff=sorted(tree_dirs(root) ^ dirs_before)[:4]))
            cnt("inputs_invalid_by_construction")
        else:
            # whatever happened, listable paths hold complete verified content only
            for rel, (idv, size) in after.items():
                if rel.endswith(STAGING):
                    continue
                if rel == "keep" and idv == ident(b"keep me"):
                    continue
                if before.get(rel) == (idv, size):
                    continue
                sp = os.path.normpath(inp.get("path", "a"))
                if idv == ident(inp["content"]) and (rel == sp or rel.startswith(sp + ".conflict-")):
                    continue
                if inp["cls"] in ("session-bytes-mutated",):
                    # a mutated path string or length may legitimately name another file with a verified body
                    cnt("mutated_session_created_other_path")
                    continue
                viol("C12|serve|listable-path-with-unverified-bytes|" + inp["cls"], dict(label, path=rel, size=size))
        exitc = "signal" if r["signal"] is not None else ("exit0" if r["code"] == 0 else "exit-nonzero")
        first = reps[0].get("kind") if reps else "none"
        if len(data) >= 10 or data[:6] == cbor.MAGIC:
            res["distinct"].add("%s|%s|%s|%d" % (inp["cls"], exitc, first, min(len(reps), 4)))
        cnt("inputs[%s]" % inp["cls"])
        cnt("exit[%s]" % exitc)
        for sig, det in found:
            res["viol"].append((sig, det))
        if len(res["samples"]) < 1:
            res["samples"].append(dict(label, exit=exitc, replies=[x.get("kind") for x in reps][:6]))
    b3.close()
    rmtree(wd)
    return res


def c12(tier):
    from common import run_vh
    build("cli", "shim", "vh", "vh-debug")
    r = Result("C12", "exploration", "process level: one evaluation = one byte string fed to one `copia serve` (in 1-4 pieces, then stdin closed) under the libc trace + allocation log (requests >= 512 KiB) and RLIMIT_AS = 1 GiB; verdicts: no signal/panic, <= 3 zero-length read(0) after EOF, no allocation >= a length prefix L > 2^20 that was sent, tree unchanged for inputs that are invalid by construction, listable paths hold only complete verified content otherwise; resync sessions (8 error-drawing requests x valid tail) must answer the tail exactly like a fresh control session; sweeps over every cut point of a session; in-process twin: wire.rs compiled unchanged, read_frame::<Request> on a hostile corpus under a counting allocator and catch_unwind (release and debug-assertion profiles); distinct non-trivial = distinct (generator class, exit class, first reply class, reply count) with a valid prologue or >= 10 bytes")
    th = tier == "thorough"
    wroot = workdir("c12")
    jobs = []
    modes = [("fuzz", 60000 if th else 3200), ("resync", 2400 if th else 160), ("cutsweep", 5300 if th else 5300)]
    if th and shutil.which("valgrind"):
        build("cli-vg")
        modes.append(("valgrind", 300))
    for mode, n in modes:
        if mode == "cutsweep" and not th:
            n = 330
        per = max(1, n // (NCPU * 2))
        for lo in range(0, n, per):
            jobs.append((seed(), lo, min(n, lo + per), wroot, mode))
    fold(r, run_jobs(_c12_worker, jobs))
    rmtree(wroot)
    from common import VARIANT
    if not VARIANT:
        r.merge_vh(run_vh("c12", tier, cases=300000 if th else 20000, alloc_abort="C12|read_frame|single-allocation-request-above-1GiB-aborted-the-process"), "twin-release:")
        r.merge_vh(run_vh("c12", tier, profile="debug", cases=60000 if th else 4000, sd=seed() + 1000003, alloc_abort="C12|read_frame|single-allocation-request-above-1GiB-aborted-the-process"), "twin-debug:")
    if th:
        from libchecks import fuzz_stage, miri_stage
        miri_stage(r, "c12", "C12")
        fuzz_stage(r, "frame", "C12")
    r.assumptions = ["'no valid request' is asserted only for inputs that are so by construction; mutated frames are judged on crash/allocation/spin/content only", "allocation verdicts use exact evidence: a request >= a length prefix the driver put on the wire", "watchdog expiry without zero-length reads in the trace is inconclusive"]
    if tier == "thorough":
        asan_stage(r, "C12")
    finish(r, tier)


# ------------------------------------------------------------------ C13
HUBSYNC_RE = re.compile(r"Hub push complete: (\d+) sent, (\d+) unchanged, (\d+) conflict\(s\)")
CONFLICT_LINE = re.compile(r"CAS conflict \(hub changed under us\): (.*) — hub kept a conflict-copy", re.S)


def gen_local_tree(rng, universe, hostile=True):
    from fsutil import HOSTILE_COMPONENTS
    files = {}
    for p in universe:
        if rng.chance(2, 3):
            size = rng.pick([0, 1, 50, 2000, 300 * 1024])
            files[p] = (b"%s|" % rng.bytes(5).hex().encode()) * (size // 11 + (1 if size else 0)) if size else b""
            files[p] = files[p][:size] if size else b""
            zk = rng.below(12)
            if zk == 0:
                # disk images, pre-allocated databases: whole buffers of zeros, a length that is an exact multiple
                # of the hub's I/O buffer, zeros at the very end
                files[p] = bytes(rng.pick([262144, 524288, 8192, 262143, 262145]))
            elif zk == 1:
                files[p] = (b"%s|" % rng.bytes(5).hex().encode()) * 24000
                files[p] = files[p][: rng.pick([262144, 131072])] + bytes(rng.pick([262144, 524288]))
            elif zk == 2:
                files[p] = bytes(262144) + b"tail-after-a-zero-buffer" + bytes(rng.pick([0, 262144 - 24]))
    # one tree cannot hold `d` both as a file and as a directory; different clients' trees can (and then the hub has
    # a directory where this client has a file, or the other way round)
    for p in sorted(files):
        if any(q != p and q.startswith(p + "/") for q in files):
            if rng.chance(1, 2):
                del files[p]
            else:
                for q in [q for q in files if q.startswith(p + "/")]:
                    del files[q]
    if not files:
        files[universe[0]] = b"only"
    return files


def hub_universe(rng, n=6):
    from fsutil import HOSTILE_COMPONENTS
    pool = ["a", "d/b", "d/e/c", "with space", "it's", "q?x", "st*r", "new\nline", "-dash", "é日", "$x", "..x", "x..", "back\\slash", "tab\tx",
            ".copiaignore", ".copia-notes/todo", ".copi", "d/.copia/x"]
    uni = rng.shuffle(pool)[:n]
    if rng.chance(1, 3):
        # a name that is a file in one client's tree and a directory in another's
        deep = [p for p in uni if "/" in p]
        uni.append(rng.pick(deep).split("/")[0] if deep else "a/inner")
    return uni


def materialise(base, files):
    rmtree(base)
    os.makedirs(base)
    for p, data in files.items():
        full = os.path.join(base, p)
        os.makedirs(os.path.dirname(full), exist_ok=True)
        with open(full, "wb") as f:
            f.write(data)


def hub_files(root):
    return {k: v for k, v in walk_root(root).items() if not k.endswith(STAGING)}


def _c13_seq_worker(args):
    seedv, lo, hi, wroot = args
    res = {"evaluations": 0, "distinct": set(), "viol": [], "counters": {}, "samples": [], "inconclusive": 0}
    cn = res["counters"]

    def cnt(k, n=1):
        cn[k] = cn.get(k, 0) + n

    b3 = B3()
    for idx in range(lo, hi):
        rng = SplitMix.derive(seedv, "c13", idx)
        wd = os.path.join(wroot, "s%d" % lo)
        rmtree(wd)
        home = os.path.join(wd, "home")
        os.makedirs(home)
        bindir = install_standin(os.path.join(wd, "bin"))
        via_ssh = rng.chance(1, 2)
        # over ssh the root is re-parsed by the remote shell (as with real sshd): keep it a plain word there
        root = os.path.join(wd, "hub" if via_ssh else rng.pick(["hub", "hub root", "hub's", "hüb$x"]))
        target = ("vh:" + root) if via_ssh else root
        uni = hub_universe(rng)
        nclients = rng.range(1, 3)
        env = base_env(home, path_prefix=bindir)
        nruns = rng.range(2, 5)
        prev_local = {}
        for step in range(nruns):
            c = rng.below(nclients)
            files = gen_local_tree(rng, uni)
            if rng.chance(1, 3) and c in prev_local:
                files = prev_local[c]  # unchanged tree pushed again
            prev_local[c] = files
            local = os.path.join(wd, "local%d" % c)
            materialise(local, files)
            before = hub_files(root) if os.path.isdir(root) else {}
            before_ino = {p: r.get("ino") for p, r in snapshot(root).items()} if os.path.isdir(root) else {}
            r = run(["hub-sync", local, target], env, cwd=home, timeout=90)
            if r.timed_out:
                res["inconclusive"] += 1
                break
            res["evaluations"] += 1
            label = {"index": idx, "step": step, "client": c, "via_ssh": via_ssh, "files": sorted(files)[:8]}
            after = hub_files(root) if os.path.isdir(root) else {}
            after_ino = {p: rr.get("ino") for p, rr in snapshot(root).items()} if os.path.isdir(root) else {}
            m = HUBSYNC_RE.search(r.stdout)
            cnt("runs[%s]" % ("ssh" if via_ssh else "local-target"))
            if r.code == 0:
                for p, data in files.items():
                    if after.get(p, (None,))[0] != ident(data):
                        res["viol"].append(("C13|exit0-local-file-not-on-hub", dict(label, path=p, run=r.brief())))
                for p, v in before.items():
                    if p in files:
                        continue
                    if after.get(p) != v or after_ino.get(p) != before_ino.get(p):
                        res["viol"].append(("C13|exit0-hub-file-at-other-path-changed", dict(label, path=p)))
                for p in after:
                    if p not in before and p not in files:
                        res["viol"].append(("C13|exit0-unexpected-hub-path-created", dict(label, path=p)))
                if m:
                    sent, unch, conf = map(int, m.groups())
                    want_sent = sum(1 for p, d in files.items() if before.get(p, (None,))[0] != ident(d))
                    if sent != want_sent or unch != len(files) - want_sent or conf != 0:
                        res["viol"].append(("C13|counters-differ-from-model", dict(label, line=m.group(0), want=[want_sent, len(files) - want_sent, 0])))
                    if want_sent and len(files) - want_sent:
                        res["distinct"].add("seq|%s|n%d" % ("ssh" if via_ssh else "local", min(4, len(files))))
                # the immediate second run sends nothing and the server mutates nothing under ROOT
                trace = os.path.join(wd, "tr")
                for f in os.listdir(wd):
                    if f.startswith("tr."):
                        os.unlink(os.path.join(wd, f))
                snap0 = snapshot(root)
                r2 = run(["hub-sync", local, target], shim_env(env, log=trace), cwd=home, timeout=90)
                m2 = HUBSYNC_RE.search(r2.stdout)
                if r2.code != 0 or not m2 or int(m2.group(1)) != 0 or int(m2.group(3)) != 0:
                    res["viol"].append(("C13|second-run-sent-something", dict(label, run=r2.brief())))
                tr = read_traces(trace)
                from fsutil import MUTATING
                rr = os.path.realpath(root)
                muts = [e for pid in tr for e in tr[pid] if e.op in MUTATING and e.ret >= 0 and e.p1 and e.p1.startswith(rr + "/") and "/.copia" not in e.p1]
                if muts:
                    res["viol"].append(("C13|second-run-server-mutated-root", dict(label, calls=[repr(e) for e in muts[:3]])))
                snap1 = snapshot(root)
                if {p: (x.get("id"), x.get("ino")) for p, x in snap0.items()} != {p: (x.get("id"), x.get("ino")) for p, x in snap1.items()}:
                    res["viol"].append(("C13|second-run-changed-hub-tree", dict(label)))
                cnt("second_runs")
            else:
                # the statement makes no claim about a run that fails with a reported error
                cnt("nonzero_exit_in_sequential_part")
                if "Error" not in r.stderr:
                    res["viol"].append(("C13|nonzero-exit-without-error-report", dict(label, run=r.brief())))
            if len(res["samples"]) < 1:
                res["samples"].append(dict(label, line=m.group(0) if m else None))
        rmtree(wd)
    b3.close()
    return res


class HubSyncGate:
    """Two real `hub-sync` processes; only their `serve` children are gated. The scheduler holds
    client 0's server at its first read(0) after it has listed the tree (stale listing), lets the
    other client run to completion, then releases it; or interleaves around that point."""

    def __init__(self, wd, root, locals_, env, rng, policy):
        import socket as _s
        self.wd, self.root, self.locals, self.env, self.rng, self.policy = wd, os.path.realpath(root), locals_, env, rng, policy
        HubSyncGate._sock_counter = getattr(HubSyncGate, "_sock_counter", 0) + 1
        self.sockname = "fsmon-hs-%d-%d" % (os.getpid(), HubSyncGate._sock_counter)
        self.sockpath = "@" + self.sockname
        self.procs = []
        self.gates = {}
        self.bufs = {}
        self.pending = {}
        self.listed = {}
        self.lock_holder = None
        self.blocked = set()
        self.released = {}
        self.last_stage = {}
        self.renamed = {}
        self.rename_target = {}
        self.list_end = {}
        self.commit_step = {}
        self.trace = []
        self.step = 0

    def run(self):
        import socket as _s
        lst = _s.socket(_s.AF_UNIX, _s.SOCK_STREAM)
        lst.bind("\0" + self.sockname)
        lst.listen(8)
        lst.settimeout(20)
        for i, local in enumerate(self.locals):
            e = shim_env(self.env, gate=self.sockpath, root=self.root, tag=str(i), argv1="serve")
            p = subprocess.Popen([COPIA, "hub-sync", local, self.root], env=e, stdin=subprocess.DEVNULL, stdout=subprocess.PIPE, stderr=subprocess.PIPE, cwd=self.wd, start_new_session=True)
            self.procs.append(p)
        try:
            for _ in self.locals:
                conn, _a = lst.accept()
                conn.settimeout(20)
                buf = b""
                while b"\n" not in buf:
                    d = conn.recv(4096)
                    if not d:
                        raise Inconclusive("gate hello eof")
                    buf += d
                line, rest = buf.split(b"\n", 1)
                idx = int(line.split()[2])
                self.gates[idx] = conn
                self.bufs[idx] = rest
        except OSError as ex:
            raise Inconclusive("gate accept: %r" % (ex,))
        finally:
            lst.close()
        for i in list(self.gates):
            self.await_req(i)
        held_released = False
        while self.gates:
            live = [i for i in self.gates if i in self.pending]
            if not live:
                break
            enabled = [i for i in live if not (self.pending[i]["op"] == "flock" and i in self.blocked)]
            if not enabled:
                raise Inconclusive("all servers blocked")
            choice = self.policy(self, enabled)
            self.step += 1
            self.do_step(choice)
            if self.step > 4000:
                raise Inconclusive("step budget")
        outs = []
        for p in self.procs:
            try:
                o, e = p.communicate(timeout=30)
            except subprocess.TimeoutExpired:
                os.killpg(p.pid, 9)
                o, e = p.communicate()
                raise Inconclusive("hub-sync did not exit")
            outs.append((p.returncode, o.decode("utf-8", "replace"), e.decode("utf-8", "replace")))
        return outs

    def readline(self, i):
        conn = self.gates[i]
        while b"\n" not in self.bufs[i]:
            try:
                d = conn.recv(65536)
            except OSError:
                d = b""
            if not d:
                return None
            self.bufs[i] += d
        line, self.bufs[i] = self.bufs[i].split(b"\n", 1)
        return line

    def await_req(self, i):
        line = self.readline(i)
        if line is None:
            self.gates[i].close()
            del self.gates[i]
            self.pending.pop(i, None)
            self.blocked = set()
            if self.lock_holder == i:
                self.lock_holder = None
            return
        parts = line.decode("utf-8", "surrogateescape").split(" ")
        self.pending[i] = {"op": parts[2], "path": unesc(parts[3]) if len(parts) > 3 else ""}
        if parts[2] == "rename" and len(parts) > 4:
            self.rename_target[i] = unesc(parts[4])

    def do_step(self, i):
        pend = self.pending.pop(i)
        self.gates[i].sendall(b"GO\n")
        line = self.readline(i)
        if line is None:
            self.await_req(i)
            return
        parts = line.decode().split(" ")
        if parts[0] == "BLOCKED":
            self.trace.append((self.step, i, "flock BLOCKED"))
            self.blocked.add(i)
            self.await_req(i)
            return
        self.blocked = set()
        ret = int(parts[2])
        if pend["op"] == "flock" and ret == 0:
            self.lock_holder = i
        if pend["op"] == "unlock" and self.lock_holder == i:
            self.lock_holder = None
        if pend["op"] == "opendir":
            self.listed[i] = True
        if pend["op"] == "openw" and pend["path"].endswith(STAGING):
            self.last_stage[i] = pend["path"]
        if pend["op"] == "openw" and pend["path"].endswith(STAGING) and i not in self.list_end:
            self.list_end[i] = self.step  # this client's listing was complete before this step
        if pend["op"] == "rename" and ret == 0:
            tgt = self.rename_target.pop(i, "")
            self.renamed.setdefault(i, []).append(tgt)
            self.commit_step.setdefault(i, {})[tgt] = self.step
        self.trace.append((self.step, i, "%s %s -> %d" % (pend["op"], pend["path"][-40:], ret)))
        self.await_req(i)


def stale_policy(hold, rng, jitter):
    """Hold server `hold` at its first read0 after listing until the other has finished."""
    def pol(g, enabled):
        others = [i for i in enabled if i != hold]
        if hold in enabled:
            p = g.pending[hold]
            at_hold_point = g.listed.get(hold) and p["op"] == "read0"
            if at_hold_point and others:
                if jitter and rng.chance(1, jitter):
                    return hold
                return others[rng.below(len(others))]
            if not g.listed.get(hold):
                # get the holder to its listing first
                if jitter and others and rng.chance(1, jitter):
                    return others[rng.below(len(others))]
                return hold
        return enabled[rng.below(len(enabled))]
    return pol


def both_stale_policy(rng):
    """Drive BOTH servers to the point right after their listing, then interleave them at random:
    both clients Put from stale listings and their commits overlap."""
    def pol(g, enabled):
        not_listed = [i for i in enabled if not g.listed.get(i)]
        if not_listed:
            return not_listed[rng.below(len(not_listed))]
        waiting = [i for i in enabled if not (g.pending[i]["op"] == "read0" and not g.released.get(i))]
        if len(g.listed) < len(g.locals) and waiting:
            return waiting[rng.below(len(waiting))]
        for i in enabled:
            g.released[i] = True
        return enabled[rng.below(len(enabled))]
    return pol


def rendezvous_policy(rng, contested):
    """Both clients work from stale listings (both listed before any Put); whenever a server is about
    to take the commit lock for a contested path it is held until the other server is at the same
    point for the same path (or can no longer get there); then both are released in random order.
    This is the interleaving in which a compare made outside the lock loses an update."""
    def at_lock_for(g, i):
        p = g.pending.get(i)
        if not p or p["op"] != "openw" or not p["path"].endswith("commit.lock"):
            return None
        st = g.last_stage.get(i)
        for c in contested:
            if st and st.startswith(os.path.join(g.root, c) + "."):
                return c
        return None

    def passed(g, j, c):
        full = os.path.join(g.root, c)
        return j not in g.gates or any(t == full or t.startswith(full + ".conflict-") for t in g.renamed.get(j, ()))

    def pol(g, enabled):
        not_listed = [i for i in enabled if not g.listed.get(i)]
        if not_listed:
            return not_listed[rng.below(len(not_listed))]
        free = []
        for i in enabled:
            c = at_lock_for(g, i)
            if c is None or (i, c) in g.released:
                free.append(i)
                continue
            others = [j for j in range(len(g.locals)) if j != i]
            ready = all(passed(g, j, c) or at_lock_for(g, j) == c for j in others)
            if ready:
                for j in range(len(g.locals)):
                    g.released[(j, c)] = True
                free.append(i)
        if free:
            return free[rng.below(len(free))]
        # everybody is held for different paths: let the one with the smallest path go
        i = min(enabled, key=lambda k: at_lock_for(g, k) or "")
        g.released[(i, at_lock_for(g, i))] = True
        return i
    return pol


def random_policy(rng):
    def pol(g, enabled):
        return enabled[rng.below(len(enabled))]
    return pol


def _c13_gate_worker(args):
    seedv, lo, hi, wroot = args
    res = {"evaluations": 0, "distinct": set(), "viol": [], "counters": {}, "samples": [], "inconclusive": 0}
    cn = res["counters"]

    def cnt(k, n=1):
        cn[k] = cn.get(k, 0) + n

    b3 = B3()
    for idx in range(lo, hi):
        rng = SplitMix.derive(seedv, "c13g", idx)
        wd = os.path.join(wroot, "g%d" % lo)
        rmtree(wd)
        home = os.path.join(wd, "home")
        os.makedirs(home)
        root = os.path.join(wd, "hub")
        uni = hub_universe(rng, 4)
        uni = [p for p in uni if not any(q.startswith(p + "/") for q in uni)]  # the gated part has no file/directory clashes
        initial = {p: b"hub-initial:" + p.encode() for p in uni if rng.chance(1, 2)}
        materialise(root, initial)
        locs = []
        trees = []
        for c in range(2):
            files = {}
            for p in uni:
                if rng.chance(3, 4):
                    files[p] = b"client%d:%s:" % (c, p.encode()) + rng.bytes(4).hex().encode() + b"." * rng.pick([0, 10, 300 * 1024])
            if not files:
                files[uni[0]] = b"client%d-only" % c
            if rng.chance(1, 4) and initial:
                q = sorted(initial)[0]
                files[q] = initial[q]  # identical to the hub: must be skipped
            if c == 1 and rng.chance(1, 4):
                # the other client's very bytes (> 256 KiB) at one path, own bytes elsewhere: a stale run then offers
                # content the hub already holds
                q = rng.pick(sorted(trees[0]))
                trees[0][q] = files[q] = b"shared-big:" + q.encode() + b"#" * rng.pick([300 * 1024, 262145, 700 * 1024])
                materialise(locs[0], trees[0])
            trees.append(files)
            d = os.path.join(wd, "local%d" % c)
            materialise(d, files)
            locs.append(d)
        kind = rng.pick(["stale", "stale-jitter", "random", "both-stale", "rendezvous", "rendezvous"])
        hold = rng.below(2)
        contested = sorted(p for p in set(trees[0]) & set(trees[1]) if trees[0][p] != trees[1][p])
        pol = stale_policy(hold, rng, 0) if kind == "stale" else (stale_policy(hold, rng, 6) if kind == "stale-jitter" else (both_stale_policy(rng) if kind == "both-stale" else (rendezvous_policy(rng, contested) if kind == "rendezvous" else random_policy(rng))))
        g = HubSyncGate(wd, root, locs, base_env(home), rng, pol)
        try:
            outs = g.run()
        except Inconclusive as ex:
            res["inconclusive"] += 1
            cnt("inconclusive[%s]" % str(ex)[:30])
            for p in g.procs:
                try:
                    os.killpg(p.pid, 9)
                except OSError:
                    pass
            continue
        res["evaluations"] += 1
        label = {"index": idx, "schedule": kind, "held": hold, "paths": uni}
        hub = hub_files(root)
        allids = {v[0] for v in hub.values()}
        conflicts_reported = []
        for c, (code, out, err) in enumerate(outs):
            m = HUBSYNC_RE.search(out)
            confl = CONFLICT_LINE.findall(err)
            conflicts_reported.append(set(confl))
            if m is None:
                res["viol"].append(("C13|gated|no-summary-line", dict(label, client=c, code=code, stderr=err[-300:])))
                continue
            nconf = int(m.group(3))
            if (code != 0) != (nconf > 0):
                res["viol"].append(("C13|gated|exit-status-does-not-reflect-conflicts", dict(label, client=c, code=code, line=m.group(0))))
            # every local file retrievable: at its path or as a conflict copy
            for p, data in trees[c].items():
                h12 = b3.data(data)[:12]
                at_path = hub.get(p, (None,))[0] == ident(data)
                at_conf = hub.get("%s.conflict-%s" % (p, h12), (None,))[0] == ident(data)
                if p in confl:
                    if not at_conf:
                        res["viol"].append(("C13|gated|conflicting-file-not-preserved-as-conflict-copy", dict(label, client=c, path=p)))
                    if at_path and trees[1 - c].get(p) != data:
                        res["viol"].append(("C13|gated|reported-conflict-but-overwrote", dict(label, client=c, path=p)))
                elif not at_path and not at_conf:
                    # legitimately replaced only by the other client's acknowledged commit with a fresh listing
                    other = trees[1 - c].get(p)
                    if other is None or hub.get(p, (None,))[0] != ident(other) or p in conflicts_reported[1 - c] if len(conflicts_reported) > 1 - c else False:
                        res["viol"].append(("C13|gated|local-file-not-retrievable-from-hub", dict(label, client=c, path=p, code=code)))
                    else:
                        cnt("files_replaced_by_later_acknowledged_commit")
        # lost update: j committed p although its listing was complete before i committed p
        for pth in contested:
            full = os.path.join(g.root, pth)
            for i in (0, 1):
                j = 1 - i
                ci = g.commit_step.get(i, {}).get(full)
                cj = g.commit_step.get(j, {}).get(full)
                if ci is not None and cj is not None and cj > ci and g.list_end.get(j, 10 ** 9) < ci:
                    res["viol"].append(("C13|gated|put-from-stale-listing-overwrote-a-commit", dict(label, path=pth, first_commit_step=ci, stale_listing_complete_at=g.list_end.get(j), second_commit_step=cj, exits=[o[0] for o in outs])))
        # nothing another client committed has been overwritten by a client that then reported a conflict
        for p in set(trees[0]) & set(trees[1]):
            if trees[0][p] == trees[1][p]:
                continue
            live = hub.get(p, (None,))[0]
            if live not in (ident(trees[0][p]), ident(trees[1][p])):
                res["viol"].append(("C13|gated|live-content-is-neither-client's", dict(label, path=p)))
        for p, data in initial.items():
            if p not in trees[0] and p not in trees[1] and hub.get(p, (None,))[0] != ident(data):
                res["viol"].append(("C13|gated|hub-file-at-other-path-changed", dict(label, path=p)))
        nconfl = sum(len(x) for x in conflicts_reported)
        if nconfl:
            cnt("schedules_with_cas_conflicts")
            res["distinct"].add("gated|%s|c%d|%x" % (kind, nconfl, hash(tuple((a, b.split(" ")[0]) for _, a, b in g.trace)) & 0xFFFFFF))
        cnt("gated_schedules[%s]" % kind)
        cnt("gated_steps", g.step)
        if len(res["samples"]) < 1:
            res["samples"].append(dict(label, exits=[o[0] for o in outs], conflicts=[sorted(x) for x in conflicts_reported], steps=g.step))
        rmtree(wd)
    b3.close()
    return res


def _c13_unreadable_worker(args):
    """`hub-sync LOCAL ROOT` run as an UNPRIVILEGED user (root reads everything, so the ordinary runs cannot see
    this): one regular file under LOCAL is mode 000. Exit status 0 claims that every regular file under LOCAL is
    on the hub; a file that could not be read is not, so the run must not exit 0 - or must deliver it."""
    seedv, idx, wroot = args
    res = {"evaluations": 0, "distinct": set(), "viol": [], "counters": {}, "samples": [], "inconclusive": 0}
    rng = SplitMix.derive(seedv, "c13unreadable", idx)
    wd = os.path.join(wroot, "ur%d" % idx)
    rmtree(wd)
    local, hubroot, home = os.path.join(wd, "local"), os.path.join(wd, "hub"), os.path.join(wd, "home")
    n = rng.pick([3, 8, 60, 130])
    files = {"d%02d/f%03d" % (i % 7, i): b"content %d %s" % (i, rng.bytes(3).hex().encode()) for i in range(n)}
    victim = rng.pick(sorted(files)[: max(1, n // 2)])
    materialise(local, files)
    os.makedirs(hubroot)
    os.makedirs(home)
    subprocess.run(["chmod", "-R", "a+rwX", wd], check=False)
    p_ = wd
    while p_ not in ("/", ""):
        # every directory above must let the unprivileged user through
        try:
            os.chmod(p_, os.stat(p_).st_mode | 0o055)
        except OSError:
            pass
        p_ = os.path.dirname(p_)
        if not p_.startswith(os.path.dirname(wroot)):
            break
    os.chmod(os.path.join(local, victim), 0)
    probe = subprocess.run(["setpriv", "--reuid=65534", "--regid=65534", "--clear-groups", "cat", os.path.join(local, sorted(files)[-1])], capture_output=True)
    probe2 = subprocess.run(["setpriv", "--reuid=65534", "--regid=65534", "--clear-groups", "cat", os.path.join(local, victim)], capture_output=True)
    if probe.returncode != 0 or probe2.returncode == 0:
        res["inconclusive"] += 1  # this machine does not let us stage the situation (no setpriv, path not traversable)
        res["counters"]["unprivileged_stage_not_available"] = 1
        rmtree(wd)
        return res
    env = base_env(home)
    r = run(["--reuid=65534", "--regid=65534", "--clear-groups", COPIA, "hub-sync", local, hubroot], env, cwd=home, timeout=120, copia="setpriv")
    if r.timed_out:
        res["inconclusive"] += 1
        rmtree(wd)
        return res
    res["evaluations"] += 1
    res["counters"]["hub_sync_runs_as_an_unprivileged_user_with_an_unreadable_file"] = 1
    tree = walk_root(hubroot)
    label = {"files": n, "unreadable": victim, "exit": r.code, "stdout_tail": r.stdout[-160:], "stderr_tail": r.stderr[-200:]}
    if r.code == 0:
        missing = sorted(pth for pth in files if tree.get(pth, (None,))[0] != ident(files[pth]))
        if missing:
            res["viol"].append(("C13|exit0-local-file-missing-from-hub|unreadable-local-file", dict(label, missing=missing[:4], missing_count=len(missing))))
    else:
        res["counters"]["unreadable_file_reported_with_nonzero_exit"] = 1
        if "rror" not in r.stderr and "rror" not in r.stdout:
            res["viol"].append(("C13|nonzero-exit-without-error-report|unreadable-local-file", label))
    res["distinct"].add("unreadable|n%d|exit%s" % (n, r.code))
    os.chmod(os.path.join(local, victim), 0o644)
    rmtree(wd)
    return res


def c13(tier):
    build("cli", "shim", "vh")
    r = Result("C13", "exploration", "sequential part: one evaluation = one `hub-sync LOCAL TARGET` in a sequence by 1-3 clients (hostile names, empty and > 256 KiB files; local-path target and vh:ROOT through the ssh stand-in): after exit 0 every local file is on the hub byte-identical, other hub paths keep bytes and inode, counters equal the model, and the immediate second run sends 0 while the traced server makes no mutating call under ROOT; gated part: one evaluation = two real hub-sync processes whose `serve` children run in gate mode; the scheduler holds one server right after it listed the tree and lets the other client finish (stale listing), with jittered and random variants; then exit status <=> conflicts, every local file of both clients is on the hub at its path or at path.conflict-<12 hex of its BLAKE3>, live content of contested paths is one client's; distinct non-trivial = sequences with both sent and skipped files, gated schedules in which a CAS conflict occurred")
    th = tier == "thorough"
    wroot = workdir("c13")
    n1 = 1500 if th else 150
    n2 = 5000 if th else 400
    jobs1 = [(seed(), lo, min(n1, lo + max(1, n1 // (NCPU * 2))), wroot) for lo in range(0, n1, max(1, n1 // (NCPU * 2)))]
    jobs2 = [(seed(), lo, min(n2, lo + max(1, n2 // (NCPU * 2))), wroot) for lo in range(0, n2, max(1, n2 // (NCPU * 2)))]
    fold(r, run_jobs(_c13_seq_worker, jobs1))
    fold(r, run_jobs(_c13_gate_worker, jobs2))
    fold(r, run_jobs(_c13_unreadable_worker, [(seed(), i, wroot) for i in range(60 if th else 8)]))
    rmtree(wroot)
    r.assumptions = ["in the gated part the hub-sync parents run freely; only their serve children are scheduled", "a local file missing from the hub is accepted only if the other client's different content is live there and that client reported no conflict on the path (a later acknowledged commit with a fresh listing)"]
    if tier == "thorough":
        asan_stage(r, "C13")
    finish(r, tier)


# ------------------------------------------------------------------ exact replay of one hub schedule
def replay_schedule(pid, rp):
    """`./check C03|C10 --replay FILE`: rebuild the programs of the first witness from its label and seed,
    re-execute exactly its list of scheduling choices and print the interleaving and the verdicts."""
    wit = None
    for w in rp.get("witnesses", []):
        if w.get("detail", {}).get("choices"):
            wit = w["detail"]
            break
    if wit is None:
        return False
    build("cli", "shim", "vh")
    seedv = int(rp.get("seed", 1))
    label = wit.get("label", {})
    b3 = B3()
    alias_rng = None
    if pid == "C03":
        if "program" in label:
            P, contents = two_op_programs()
            programs, initial = P[label["program"]]
            programs = clone_programs(programs)
            n = 2
        else:
            mode, idx = label["generator"], label["index"]
            rng = SplitMix.derive(seedv, "c03", str(mode), idx)
            programs, contents, initial, n, _strat = c03_generated_case(rng, mode)
            alias_rng = rng
    else:
        mode, idx = label.get("mode"), label.get("index")
        if mode == "badput":
            programs, contents, initial, _k = gen_bad_put(SplitMix.derive(seedv, "c10bad", idx))
            n = 1
        elif mode == "getrace":
            programs, contents, initial = gen_get_race(SplitMix.derive(seedv, "c10getrace", idx))
            n = len(programs)
        elif mode == "twinput":
            programs, contents, initial = gen_twin_put(SplitMix.derive(seedv, "c10twin", idx))
            n = 2
        elif isinstance(mode, list) and mode and mode[0] == "kill":
            n = 2
            programs, contents, initial = gen_programs(SplitMix.derive(seedv, "c10kill", mode[1]), n, big_ok=True, kinds=["Put"] * 6 + ["Delete"] * 2 + ["Get"] * 2, nshared=1)
        else:
            rng = SplitMix.derive(seedv, "c10", str(mode), idx)
            n = rng.pick([2, 2, 3])
            programs, contents, initial = gen_programs(rng, n, big_ok=rng.chance(2, 3), kinds=["Put"] * 8 + ["Delete"] * 2 + ["Get"] * 7 + ["List"] * 2)
    for op in [o for pr in programs for o in pr]:
        if op.extra.get("hash_of"):
            op.extra["declared_hash"] = b3.data(contents[op.extra["hash_of"]])
    mon = StepMonitor(pid)
    wd = workdir("replay")
    run = HubRun(wd, n, programs, contents, initial, Replay(wit["choices"]), SplitMix(seedv), on_step=mon, b3=b3)
    if alias_rng is not None and alias_rng.chance(1, 4):
        run.root_alias = {i: alias_rng.pick(["", "/.", "//", "/./"]) for i in range(n)}
    run.run()
    print("replayed %d steps (%d recorded choices)%s" % (run.step, len(wit["choices"]), " INCONCLUSIVE: " + run.inconclusive if run.inconclusive else ""))
    for st, actor, what in run.trace:
        print("  %4d %-5s %s" % (st, actor, what))
    print("history:")
    for o in run.history:
        print("  ", o.brief())
    print("final tree:", {k: v[1] for k, v in walk_root(run.root).items()})
    found = []
    cn = {}
    if pid == "C03":
        check_c03(run, mon, found, cn, shape=(label.get("generator") == "shape"))
    else:
        for sig, det in dedupe(mon.viol):
            found.append((sig, det))
        check_gets(run, found)
    b3.close()
    rmtree(wd)
    if found:
        for sig, det in found[:6]:
            print("VIOLATION property=%s replay=%s  # reproduced: %s" % (pid, os.environ.get("VERIF_REPLAY_FILE", "?"), sig))
        sys.exit(1)
    print("%s replay: the recorded schedule does not violate the property on this tree" % pid)
    sys.exit(0)
