"""Gate-mode scheduler for N `copia serve` processes sharing one root.

Every file-system call of a server under ROOT and every read(0) blocks in the LD_PRELOAD shim
until this scheduler answers GO (or KILL). The driver plays the clients. A schedule is the list
of choices made; between two steps nothing in the system moves, so the tree can be snapshotted
after every step. Time = the step counter (one monotonic clock)."""
import fcntl
import os
import select
import signal
import socket
import subprocess
import time

import cbor
from common import COPIA
from fsutil import base_env, rmtree, shim_env, unesc

F_SETPIPE_SZ = 1031
PIPE_CAP = 1 << 20
PIPE_SAFE = 900 * 1024
WATCHDOG = 20.0


class Inconclusive(Exception):
    pass


class Server:
    def __init__(self, idx):
        self.idx = idx
        self.proc = None
        self.gate = None
        self.gbuf = b""
        self.stdin_w = None
        self.stdout_r = None
        self.stderr_r = None
        self.pending = None       # dict(seq, op, path, extra)
        self.alive = True
        self.exited = False
        self.sent = 0
        self.consumed = 0
        self.stdin_closed = False
        self.steps = 0
        self.killed = False
        self.stderr = b""
        self.holding_lock = False
        self.blocked = False      # last flock attempt returned EWOULDBLOCK; retry after another actor moved


class Op:
    """One client operation in the history."""

    def __init__(self, client, kind, path=None, expected=None, content=None, opno=0, **kw):
        self.client = client
        self.kind = kind            # Put Delete Get List Bye Hello
        self.path = path
        self.expected_spec = expected  # "seen" | "init" | "none" | "stale" | explicit hex/None via ("hex", h)
        self.expected = None
        self.content = content      # key into the contents table
        self.opno = opno
        self.call = None
        self.ret = None
        self.reply = None
        self.extra = kw             # e.g. bad-put parameters
        self.pieces = None
        # `path` is the canonical key every oracle uses; `wire` is the spelling sent to the hub
        # (`./f`, `d//g`, `d/./g` name the same file and are accepted by the hub)
        self.wire = kw.pop("wire", None) or path

    def brief(self):
        return {"client": self.client, "op": self.kind, "path": self.path if self.wire == self.path else "%s (sent as %s)" % (self.path, self.wire), "expected": (self.expected[:12] if isinstance(self.expected, str) else self.expected), "content": self.content, "call": self.call, "ret": self.ret, "reply": ({k: (v[:12] if isinstance(v, str) and len(v) == 64 else v) for k, v in self.reply.items() if k not in ("bytes", "map")} if self.reply else None)}


class Client:
    def __init__(self, idx, program):
        self.idx = idx
        self.program = program     # list[Op]
        self.pc = -1               # -1: handshake not sent
        self.cur = None
        self.queue = []            # pieces of the current op still to send
        self.waiting = False
        self.parser = cbor.ReplyParser()
        self.seen = {}             # path -> last hash this client saw (hex or None)
        self.done = False
        self.hello_ok = False
        self.dead = False          # its server died / stream broken


class HubRun:
    def __init__(self, workdir, nservers, programs, contents, initial, strategy, rng, on_step=None, b3=None, via_gate=True):
        """programs: list (per client) of Op lists. contents: key -> bytes. initial: relpath -> content key."""
        self.wd = workdir
        self.root = os.path.join(workdir, "root")
        self.contents = contents
        self.initial = initial
        self.strategy = strategy
        self.rng = rng
        self.on_step = on_step
        self.b3 = b3
        self.step = 0
        self.trace = []            # (step, actor, what)
        self.choices = []
        self.history = []
        self.lock_holder = None
        self.servers = [Server(i) for i in range(nservers)]
        self.clients = [Client(i, programs[i]) for i in range(nservers)]
        self.inconclusive = None
        self.kills = []
        self.kill_gate_kinds = []
        self.b3cache = {}
        self.root_alias = {}       # server index -> suffix such as "/." (another spelling of the same root)
        rmtree(workdir)
        os.makedirs(self.root)
        for rel, key in initial.items():
            full = os.path.join(self.root, rel)
            os.makedirs(os.path.dirname(full), exist_ok=True)
            with open(full, "wb") as f:
                f.write(contents[key])
        self.root = os.path.realpath(self.root)
        # abstract unix socket (leading NUL): independent of how deep the work directory is
        HubRun._sock_counter = getattr(HubRun, "_sock_counter", 0) + 1
        self.sockname = "fsmon-gate-%d-%d" % (os.getpid(), HubRun._sock_counter)
        self.sockpath = "@" + self.sockname
        self.home = os.path.join(workdir, "home")
        os.makedirs(self.home)

    # ---------------------------------------------------------- content hashes
    def hash_of(self, key):
        if key is None:
            return None
        if key not in self.b3cache:
            self.b3cache[key] = self.b3.data(self.contents[key])
        return self.b3cache[key]

    # ---------------------------------------------------------- process control
    def start(self):
        lst = socket.socket(socket.AF_UNIX, socket.SOCK_STREAM)
        lst.bind("\0" + self.sockname)
        lst.listen(16)
        lst.settimeout(WATCHDOG)
        for s in self.servers:
            r_in, w_in = os.pipe()
            r_out, w_out = os.pipe()
            for fd in (w_in, r_out):
                try:
                    fcntl.fcntl(fd, F_SETPIPE_SZ, PIPE_CAP)
                except OSError:
                    pass
            env = shim_env(base_env(self.home), gate=self.sockpath, root=self.root, tag=str(s.idx), argv1="serve", log=os.path.join(self.wd, "tr"))
            s.proc = subprocess.Popen([COPIA, "serve", self.root + self.root_alias.get(s.idx, "")], stdin=r_in, stdout=w_out, stderr=subprocess.PIPE, env=env, start_new_session=True)
            os.close(r_in)
            os.close(w_out)
            s.stdin_w = w_in
            s.stdout_r = r_out
            os.set_blocking(s.stdin_w, False)
            os.set_blocking(s.stdout_r, False)
            os.set_blocking(s.proc.stderr.fileno(), False)
        got = 0
        try:
            while got < len(self.servers):
                conn, _ = lst.accept()
                conn.settimeout(WATCHDOG)
                line = self._readline_sock(conn, b"")
                parts = line[0].split()
                if len(parts) < 3 or parts[0] != b"HELLO":
                    raise Inconclusive("bad gate hello %r" % (line,))
                idx = int(parts[2])
                self.servers[idx].gate = conn
                self.servers[idx].gbuf = line[1]
                got += 1
        except socket.timeout:
            raise Inconclusive("gate accept timeout")
        finally:
            lst.close()
        if getattr(self, "plant_staging", False):
            # what a server process with THIS pid left behind when it was killed in mid-Put (pids are recycled):
            # a staging file under the very name this server will use, longer than anything it is about to stage
            paths = sorted({op.path for c in self.clients for op in c.program if op.kind == "Put" and op.path})
            for s in self.servers:
                for pth in paths:
                    full = os.path.join(self.root, pth + ".%d.copia-tmp" % s.proc.pid)
                    try:
                        os.makedirs(os.path.dirname(full), exist_ok=True)
                        with open(full, "wb") as f:
                            f.write(b"stale staging bytes of a killed server with the same pid|" * 20000)
                    except OSError:
                        pass
        for s in self.servers:
            self._await_req(s)

    @staticmethod
    def _readline_sock(conn, buf):
        while b"\n" not in buf:
            d = conn.recv(65536)
            if not d:
                return None, buf
            buf += d
        line, rest = buf.split(b"\n", 1)
        return line, rest

    def _drain_outputs(self):
        for s in self.servers:
            while True:
                try:
                    d = os.read(s.stdout_r, 1 << 20)
                except BlockingIOError:
                    break
                except OSError:
                    break
                if not d:
                    break
                self.clients[s.idx].parser.feed(d)
            try:
                e = s.proc.stderr.read()
                if e:
                    s.stderr += e
            except Exception:
                pass

    def _await_msg(self, s):
        """Next line from server s's gate socket, draining everyone's stdout meanwhile. None = EOF."""
        t0 = time.time()
        while b"\n" not in s.gbuf:
            self._drain_outputs()
            r, _, _ = select.select([s.gate] + [x.stdout_r for x in self.servers if x.stdout_r is not None], [], [], 0.05)
            if s.gate in r:
                try:
                    d = s.gate.recv(65536)
                except (ConnectionResetError, socket.timeout):
                    d = b""
                if not d:
                    return None
                s.gbuf += d
            if time.time() - t0 > WATCHDOG:
                raise Inconclusive("watchdog waiting for server %d" % s.idx)
        line, s.gbuf = s.gbuf.split(b"\n", 1)
        return line

    def _await_req(self, s):
        """Server s runs ungated code until its next REQ (or exits)."""
        line = self._await_msg(s)
        if line is None:
            self._server_gone(s)
            return
        parts = line.decode("utf-8", "surrogateescape").split(" ")
        if parts[0] != "REQ":
            raise Inconclusive("expected REQ, got %r" % line)
        s.pending = {"seq": int(parts[1]), "op": parts[2], "path": unesc(parts[3]) if len(parts) > 3 else None, "extra": " ".join(parts[4:])}

    def _server_gone(self, s):
        s.alive = False
        s.pending = None
        try:
            s.proc.wait(timeout=WATCHDOG)
        except subprocess.TimeoutExpired:
            raise Inconclusive("server %d closed its gate but did not exit" % s.idx)
        s.exited = True
        for t in self.servers:
            t.blocked = False
        if self.lock_holder == s.idx:
            self.lock_holder = None
        self._drain_outputs()

    # ---------------------------------------------------------- enabledness
    def server_enabled(self, s):
        if not s.alive or s.pending is None:
            return False
        op = s.pending["op"]
        if op == "read0":
            return s.sent - s.consumed > 0 or s.stdin_closed
        if op == "flock":
            # no assumption about lock modes (shared / exclusive / conversions): any attempt is allowed;
            # after a BLOCKED answer the server is disabled until some other server has taken a step
            return not s.blocked
        return True

    def client_next_piece(self, c):
        """Prepare (if needed) and return the next piece client c could send, or None."""
        s = self.servers[c.idx]
        if c.done or c.dead:
            return None
        if c.waiting:
            return None
        if not c.queue:
            # start the next operation
            if c.pc == -1:
                op = Op(c.idx, "Hello")
                op.pieces = [cbor.MAGIC + cbor.req_hello()]
            else:
                if c.pc >= len(c.program):
                    return None
                op = c.program[c.pc]
                op.pieces = self.encode_op(c, op)
            c.cur = op
            c.queue = list(op.pieces)
        return c.queue[0]

    def client_enabled(self, c):
        s = self.servers[c.idx]
        if not s.alive and not c.done:
            return False
        p = self.client_next_piece(c)
        if p is None:
            return False
        if p == "CLOSE":
            return True
        return len(p) <= PIPE_SAFE - (s.sent - s.consumed)

    def encode_op(self, c, op):
        k = op.kind
        if k == "List":
            return [cbor.req_list()]
        if k == "Bye":
            return [cbor.req_bye(), "CLOSE"]
        if k == "Close":
            return ["CLOSE"]
        if k == "Get":
            return [cbor.req_get(op.wire)]
        spec = op.expected_spec
        if spec == "seen":
            exp = c.seen.get(op.path)
        elif spec == "init":
            exp = self.hash_of(self.initial.get(op.path))
        elif spec == "none" or spec is None:
            exp = None
        elif spec == "stale":
            exp = self.b3.data(b"stale-content-nobody-wrote")
        elif isinstance(spec, tuple) and spec[0] == "content":
            exp = self.hash_of(spec[1])
        else:
            exp = spec
        op.expected = exp
        if k == "Delete":
            return [cbor.req_delete(op.wire, exp)]
        if k == "Put":
            data = self.contents[op.content]
            h = self.hash_of(op.content)
            declared_len = op.extra.get("declared_len", len(data))
            declared_hash = op.extra.get("declared_hash", h)
            body = data[: op.extra["send_len"]] if "send_len" in op.extra else data
            if "extra_bytes" in op.extra:
                body = body + op.extra["extra_bytes"]
            pieces = [cbor.req_put(op.wire, exp, declared_len, declared_hash)]
            npieces = op.extra.get("pieces", 1)
            if body:
                cuts = sorted({(len(body) * i) // npieces for i in range(1, npieces)})
                prev = 0
                for cpos in cuts + [len(body)]:
                    if cpos > prev:
                        pieces.append(body[prev:cpos])
                        prev = cpos
            if op.extra.get("then_close"):
                pieces.append("CLOSE")
            return pieces
        raise ValueError(k)

    # ---------------------------------------------------------- steps
    def enabled_actions(self):
        acts = []
        for s in self.servers:
            if self.server_enabled(s):
                acts.append(("srv", s.idx))
        for c in self.clients:
            if self.client_enabled(c):
                acts.append(("cli", c.idx))
        return acts

    def do_server_step(self, s, kill=False):
        pend = s.pending
        if kill:
            s.gate.sendall(b"KILL\n")
            s.killed = True
            self.kills.append((self.step, s.idx, pend["op"], pend["path"]))
            self.trace.append((self.step, "srv%d" % s.idx, "KILL before %s %s" % (pend["op"], self._rel(pend["path"]))))
            # the process dies: wait for EOF
            while True:
                line = self._await_msg(s)
                if line is None:
                    break
            self._server_gone(s)
            return
        s.gate.sendall(b"GO\n")
        line = self._await_msg(s)
        if line is None:
            self._server_gone(s)
            return
        parts = line.decode("utf-8", "surrogateescape").split(" ")
        if parts[0] == "BLOCKED":
            self.trace.append((self.step, "srv%d" % s.idx, "flock BLOCKED"))
            s.blocked = True
            s.pending = None
            self._await_req(s)
            return
        # a call really executed: whoever waits for the lock may try again
        for t in self.servers:
            if t is not s:
                t.blocked = False
        if parts[0] != "DONE":
            raise Inconclusive("expected DONE, got %r" % line)
        ret, err = int(parts[2]), int(parts[3])
        s.steps += 1
        what = "%s %s -> %d" % (pend["op"], self._rel(pend["path"]), ret)
        if pend["op"] == "read0" and ret > 0:
            s.consumed += ret
        if pend["op"] == "flock" and ret == 0:
            self.lock_holder = s.idx
        if pend["op"] == "unlock":
            if self.lock_holder == s.idx:
                self.lock_holder = None
        if pend["op"] == "rename":
            what = "rename %s -> %s = %d" % (self._rel(pend["path"]), self._rel(unesc(pend["extra"])), ret)
        self.trace.append((self.step, "srv%d" % s.idx, what))
        s.pending = None
        self._await_req(s)

    def _rel(self, p):
        if p and p.startswith(self.root):
            return p[len(self.root):] or "/"
        return p

    def do_client_step(self, c):
        s = self.servers[c.idx]
        piece = c.queue.pop(0)
        op = c.cur
        if op.call is None:
            op.call = self.step
            if op.kind != "Hello":
                self.history.append(op)
        if piece == "CLOSE":
            try:
                os.close(s.stdin_w)
            except OSError:
                pass
            s.stdin_closed = True
            self.trace.append((self.step, "cli%d" % c.idx, "close stdin"))
        else:
            broken = False
            try:
                n = os.write(s.stdin_w, piece)
            except BrokenPipeError:
                n = 0
                broken = True
            except BlockingIOError:
                n = 0
            if n != len(piece):
                if broken or s.proc.poll() is not None:
                    c.dead = True  # the server is gone; the operation stays open in the history
                elif s.alive:
                    raise Inconclusive("short write to server %d stdin (%d of %d)" % (s.idx, n, len(piece)))
            s.sent += n
            self.trace.append((self.step, "cli%d" % c.idx, "send %d bytes of %s %s" % (len(piece), op.kind, op.path or "")))
        if not c.queue:
            if op.kind in ("Bye", "Close") or (op.kind == "Put" and op.extra.get("then_close")):
                # no reply expected for Bye; for a truncated Put the reply may or may not come
                if op.kind in ("Bye", "Close"):
                    op.ret = self.step
                    c.pc += 1
                    c.done = True
                else:
                    c.waiting = True
            else:
                c.waiting = True

    def collect_replies(self):
        self._drain_outputs()
        for c in self.clients:
            while c.waiting:
                r = c.parser.next()
                if r is None:
                    break
                op = c.cur
                op.reply = r
                op.ret = self.step
                c.waiting = False
                self.note_seen(c, op, r)
                if op.kind == "Hello":
                    c.hello_ok = r.get("kind") == "Hello"
                    c.pc = 0
                else:
                    c.pc += 1
                c.cur = None
                self.trace.append((self.step, "cli%d" % c.idx, "reply %s" % ({k: (v[:12] if isinstance(v, str) and len(v) == 64 else v) for k, v in r.items() if k not in ("bytes", "map")},)))
            if c.parser.broken and not c.dead:
                c.dead = True
                self.trace.append((self.step, "cli%d" % c.idx, "reply stream broken: %s" % c.parser.broken))

    def note_seen(self, c, op, r):
        k = r.get("kind")
        if k == "Fingerprints":
            for p, (h, _) in r["map"].items():
                c.seen[p] = h
            for p in list(c.seen):
                if p not in r["map"]:
                    c.seen[p] = None
        elif k == "PutResult":
            c.seen[op.path] = r.get("current")
        elif k == "DeleteResult":
            c.seen[op.path] = r.get("current") if not r.get("deleted") else None
        elif k == "Content":
            c.seen[op.path] = r.get("hash")

    def finished(self):
        return all(not s.alive for s in self.servers)

    def run(self, max_steps=3000):
        try:
            self.start()
            self.collect_replies()
            if self.on_step:
                self.on_step(self)
            while not self.finished():
                acts = self.enabled_actions()
                if not acts and any(s.blocked for s in self.servers if s.alive):
                    # everybody who could move is waiting for the lock: let them retry
                    for s in self.servers:
                        s.blocked = False
                    self.blocked_retries = getattr(self, "blocked_retries", 0) + 1
                    if self.blocked_retries > 200:
                        raise Inconclusive("lock never becomes available")
                    continue
                if not acts:
                    # clients whose program is over but never said Bye: close their stdin
                    progressed = False
                    for c in self.clients:
                        s = self.servers[c.idx]
                        if s.alive and not s.stdin_closed and (c.done or c.dead or (c.pc >= len(c.program) and not c.waiting and not c.queue and c.pc >= 0)):
                            try:
                                os.close(s.stdin_w)
                            except OSError:
                                pass
                            s.stdin_closed = True
                            progressed = True
                    if progressed:
                        continue
                    # a client waiting for a reply that will never come (stream broken / server stuck)
                    stuck = [c.idx for c in self.clients if c.waiting]
                    for c in self.clients:
                        s = self.servers[c.idx]
                        if s.alive and not s.stdin_closed:
                            try:
                                os.close(s.stdin_w)
                            except OSError:
                                pass
                            s.stdin_closed = True
                            progressed = True
                    if progressed:
                        continue
                    raise Inconclusive("deadlock: no enabled action, stuck clients %s" % stuck)
                choice = self.strategy.pick(self, acts)
                self.choices.append(choice)
                self.step += 1
                if choice[0] == "srv":
                    self.do_server_step(self.servers[choice[1]])
                elif choice[0] == "kill":
                    self.do_server_step(self.servers[choice[1]], kill=True)
                else:
                    self.do_client_step(self.clients[choice[1]])
                self.collect_replies()
                if self.on_step:
                    self.on_step(self)
                if self.step > max_steps:
                    raise Inconclusive("step budget exhausted")
            self.collect_replies()
        except Inconclusive as e:
            self.inconclusive = str(e)
        finally:
            self.cleanup()
        return self

    def cleanup(self):
        for s in self.servers:
            for fd in (s.stdin_w,):
                if fd is not None and not s.stdin_closed:
                    try:
                        os.close(fd)
                    except OSError:
                        pass
                    s.stdin_closed = True
            if s.proc and s.proc.poll() is None:
                try:
                    os.killpg(s.proc.pid, signal.SIGKILL)
                except OSError:
                    pass
                try:
                    s.proc.wait(timeout=5)
                except Exception:
                    pass
            if s.gate:
                try:
                    s.gate.close()
                except OSError:
                    pass
            if s.stdout_r is not None:
                try:
                    os.close(s.stdout_r)
                except OSError:
                    pass
                s.stdout_r = None
            if s.proc and s.proc.stderr:
                try:
                    s.proc.stderr.close()
                except Exception:
                    pass

    def interleaving_key(self):
        """Hash of the (actor, op-kind, path-class) step sequence."""
        import hashlib
        h = hashlib.blake2b(digest_size=8)
        for st, actor, what in self.trace:
            w = what.split(" -> ")[0]
            h.update(("%s|%s;" % (actor, w)).encode("utf-8", "surrogateescape"))
        return h.hexdigest()


# ------------------------------------------------------------------ strategies
class RandomWalk:
    def __init__(self, rng, kill_prob=0):
        self.rng = rng
        self.kill_prob = kill_prob
        self.killed = 0

    def pick(self, run, acts):
        a = acts[self.rng.below(len(acts))]
        if a[0] == "srv" and self.kill_prob and self.killed == 0 and self.rng.below(1000) < self.kill_prob:
            self.killed += 1
            return ("kill", a[1])
        return a


class PCT:
    """Random priorities over the 2N actors with d priority change points."""

    def __init__(self, rng, nactors, d=2, horizon=200):
        self.rng = rng
        order = rng.shuffle(list(range(nactors)))
        self.prio = {a: len(order) - i + 10 for i, a in enumerate(order)}
        self.points = sorted(rng.below(horizon) for _ in range(d))
        self.low = 0
        self.n = 0

    @staticmethod
    def actor(a, nsrv):
        return a[1] if a[0] == "srv" else nsrv + a[1]

    def pick(self, run, acts):
        nsrv = len(run.servers)
        self.n += 1
        best = max(acts, key=lambda a: self.prio[self.actor(a, nsrv)])
        if self.points and self.n >= self.points[0]:
            self.points.pop(0)
            self.low -= 1
            self.prio[self.actor(best, nsrv)] = self.low
            best = max(acts, key=lambda a: self.prio[self.actor(a, nsrv)])
        return best


class Bounded:
    """Two servers; clients send everything first; then `first` runs a steps, the other b steps,
    then `first` to completion, then the other (<= 2 pre-emptions)."""

    def __init__(self, first, a, b):
        self.first, self.a, self.b = first, a, b
        self.phase = 0
        self.count = 0

    def pick(self, run, acts):
        cl = [x for x in acts if x[0] == "cli"]
        if cl:
            return cl[0]
        other = 1 - self.first
        order = {0: (self.first, other), 1: (other, self.first), 2: (self.first, other), 3: (other, self.first)}
        while True:
            want = order[min(self.phase, 3)][0]
            limit = {0: self.a, 1: self.b}.get(self.phase)
            srv = [x for x in acts if x[0] == "srv" and x[1] == want]
            if srv and (limit is None or self.count < limit):
                self.count += 1
                return srv[0]
            if self.phase >= 3:
                # whoever can move
                return acts[0]
            self.phase += 1
            self.count = 0


class KillAt:
    """Follow a base strategy but answer KILL at the k-th gate of server `victim`."""

    def __init__(self, base, victim, k):
        self.base, self.victim, self.k = base, victim, k
        self.seen = 0
        self.fired = False

    def pick(self, run, acts):
        a = self.base.pick(run, acts)
        if a[0] == "srv" and a[1] == self.victim and not self.fired:
            self.seen += 1
            if self.seen == self.k:
                self.fired = True
                return ("kill", self.victim)
        return a


class Replay:
    def __init__(self, choices):
        self.choices = list(choices)
        self.i = 0

    def pick(self, run, acts):
        if self.i < len(self.choices):
            c = tuple(self.choices[self.i])
            self.i += 1
            if c in acts or (c[0] == "kill" and ("srv", c[1]) in acts):
                return c
        return acts[0]


# ------------------------------------------------------------------ tree walk
def walk_root(root):
    """relpath -> bytes-identity (blake2) for every regular file under root outside .copia/."""
    import hashlib
    out = {}
    stack = [root]
    while stack:
        d = stack.pop()
        try:
            ents = list(os.scandir(d))
        except OSError:
            continue
        for e in ents:
            rel = os.path.relpath(e.path, root)
            if rel == ".copia" or rel.startswith(".copia/"):
                continue
            if e.is_dir(follow_symlinks=False):
                stack.append(e.path)
            elif e.is_file(follow_symlinks=False):
                try:
                    with open(e.path, "rb") as f:
                        data = f.read()
                except OSError:
                    continue
                out[rel] = (hashlib.blake2b(data, digest_size=16).hexdigest(), len(data))
    return out
