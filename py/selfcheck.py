"""Setup self-test of the LD_PRELOAD shim: trace mode sees copy + rename + fsync of a tiny bisync,
kill mode kills at k=1, and the ssh stand-in runs. Exit 2 on failure (harness error, never a verdict)."""
import os
import sys

sys.path.insert(0, os.path.dirname(os.path.abspath(__file__)))
from common import workdir
from fsutil import base_env, read_traces, rmtree, run, shim_env, write_file

wd = workdir("selfcheck")
a, b, home = (os.path.join(wd, x) for x in ("A", "B", "home"))
for d in (a, b, home):
    os.makedirs(d)
write_file(os.path.join(a, "f"), b"hello")
log = os.path.join(wd, "tr")
r = run(["bisync", a, b], shim_env(base_env(home), log=log))
evs = [e for evs in read_traces(log).values() for e in evs]
ops = {e.op for e in evs}
need = {"openw", "rename", "fsync", "mkdir"}
ok = r.code == 0 and need <= ops and open(os.path.join(b, "f"), "rb").read() == b"hello"
write_file(os.path.join(a, "g"), b"second")
r2 = run(["bisync", a, b], shim_env(base_env(home), log=log + "k", kill_at=1))
ok = ok and r2.signal == 9
rmtree(wd)
if not ok:
    print("HARNESS-ERROR: shim self-test failed: exit=%s ops=%s kill-signal=%s" % (r.code, sorted(ops), r2.signal))
    sys.exit(2)
print("shim self-test ok (%d traced calls)" % len(evs))
