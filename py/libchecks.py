"""Library-level properties decided by the in-process harness `vh`:
C01, C05, C16, C17, C18, C19, C20 (CLI stages are driven by vh as well)."""
import json
import os
import shutil

from common import VARIANT, Result, asan_stage, build, finish, run_vh, run_vh_miri, seed


def dseed():
    """debug-profile stages explore other cases than the release stages"""
    return seed() + 1000003

def miri_stage(r, sub, pid, shards=32, cases=6):
    """Thorough tier only: a small shard of the same workload under the Miri interpreter."""
    reps, bads, skipped = run_vh_miri(sub, shards=shards, cases=cases)
    if skipped:
        r.extra["miri_stage"] = {"skipped": skipped}
        return
    ops = 0
    for j in reps:
        r.merge_vh(j, "miri:")
        ops += j["evaluations"]
    for sig, det in bads:
        r.violation("%s|%s" % (pid, sig), det)
    r.extra["miri_stage"] = {"shards_completed": len(reps), "shards": shards, "evaluations": ops, "flags": "-Zmiri-tree-borrows (crossbeam-epoch, a rayon dependency, is not Stacked-Borrows clean), isolation disabled"}


def valgrind_stage(r, sub, cases):
    """Thorough tier only: the CLI stage again with `copia` under valgrind memcheck (exit 97 = report)."""
    import shutil as _sh
    if not _sh.which("valgrind"):
        r.extra["valgrind_stage"] = {"skipped": "valgrind not found"}
        return
    from common import COPIA_VG
    build("cli-vg")
    j = run_vh(sub, "quick", stage="cli", cases=cases, sd=seed() + 77, env_extra={"VH_VALGRIND": "1", "COPIA_BIN": COPIA_VG})
    r.merge_vh(j, "valgrind-cli:")
    r.extra["valgrind_stage"] = {"copia_runs_under_memcheck": j["evaluations"], "tool": "valgrind memcheck --error-exitcode=97 (no RLIMIT_AS in this stage); binary = release build with -C target-cpu=x86-64-v2 because valgrind 3.19 cannot run the repository's target-cpu=native code"}


def fuzz_stage(r, target, pid, secs=120):
    """Thorough tier only: libFuzzer (cargo-fuzz, ASan, -fork=16) on an in-process decode target, seeded with
    valid encodings; artifacts AND the final corpus are replayed through vh's ordinary oracle, and only what
    reproduces there is a violation."""
    import shutil as _sh
    import subprocess as _sp
    import tempfile
    from common import REPO, TARGET, V, VH, WORK
    out = tempfile.mkdtemp(prefix="fuzz-%s-" % target, dir=WORK if os.path.isdir(WORK) else None)
    try:
        _sp.run([VH, "dump-seeds", "--kind", target, "--dir", out + "/seed", "--seed", str(seed())], check=False, stdout=_sp.DEVNULL, stderr=_sp.DEVNULL)
        p = _sp.run([V + "/bin/fuzz.sh", target, str(secs), out], env=dict(os.environ, VERIF_REPO=REPO, VERIF_TARGET=TARGET), stdout=_sp.PIPE, stderr=_sp.PIPE, text=True)
        if p.returncode == 3:
            r.extra["fuzz_stage"] = {"skipped": "fuzz build unavailable: " + p.stderr[-200:]}
            return
        stats = ""
        try:
            stats = [l for l in open(out + "/run.log", errors="replace").read().splitlines() if "cov:" in l][-1][:160]
        except Exception:
            pass
        sub = "replay-frame" if target == "frame" else "replay-decode"
        total = 0
        arts = len(os.listdir(out + "/artifacts"))
        for d in ("artifacts", "corpus"):
            q = _sp.run([VH, sub, "--dir", os.path.join(out, d)], stdout=_sp.PIPE, stderr=_sp.PIPE)
            try:
                j = json.loads(q.stdout.decode())
            except Exception:
                continue
            r.merge_vh(j, "fuzz-%s:" % d)
            total += j["evaluations"]
        r.extra["fuzz_stage"] = {"target": target, "seconds": secs, "libfuzzer_last_status": stats, "artifacts": arts, "files_replayed_through_vh": total}
    finally:
        _sh.rmtree(out, ignore_errors=True)


ASSUME_LIB = [
    "the reference implementations in harness/src/refs.rs encode the property text correctly",
    "rustc/std and the blake3 crate are trusted (BLAKE3 of outputs is recomputed with the blake3 crate directly)",
]


def c17(tier):
    build("vh", "vh-debug")
    r = Result("C17", "exploration", "one evaluation = one seeded operation sequence over {new,push,roll} on both checksum types, checked after EVERY operation against exact u128 sums (O(1) incremental, re-derived from the window by the O(n) definition at a stride); distinct non-trivial = distinct (start-length class, byte distributions, op mix) with > 1 checked operation; plus the exhaustive corner family (all windows <= 3 over 6 byte values x every single push/roll)")
    th = tier == "thorough"
    r.merge_vh(run_vh("c17", tier, cases=5000 if th else 320), "release:")
    r.merge_vh(run_vh("c17", tier, profile="debug", cases=1500 if th else 100, sd=dseed()), "debug:")
    r.assumptions = ASSUME_LIB + ["only proper slides are generated (old byte = the byte leaving a non-empty window)"]
    if tier == "thorough":
        miri_stage(r, "c17", "C17")
    finish(r, tier)


def c16(tier):
    build("vh")
    r = Result("C16", "exploration", "one evaluation = one (basis, source, block size) through both engines vs an independent Rabin-Karp + byte-compare greedy scan; families: general edits, identical files (literal < block), tail-free distinct blocks with one edit of k <= bs bytes (literal <= k + 2 bs); distinct non-trivial = distinct (block size, byte-sum class of the basis, slide-count class, edit shape) where the reference found >= 1 match")
    th = tier == "thorough"
    r.merge_vh(run_vh("c16", tier, cases=2000000 if th else 200000), "release:")
    r.assumptions = ASSUME_LIB
    if tier == "thorough":
        miri_stage(r, "c16", "C16")
    finish(r, tier)


def c01(tier):
    build("vh", "vh-debug", "cli", "shim")
    r = Result("C01", "exploration", "one evaluation = one (basis, source, block size) case through Signature::generate / sync trait / async engine, both delta engines and both patch engines (4 combinations) with a recording basis reader, or one CLI chain (signature|delta|patch through files + `copia sync` with DST absent/identical/basis); distinct non-trivial = distinct (block size, edit script shape, basis size class) whose delta has >= 1 copy AND >= 1 literal op")
    th = tier == "thorough"
    if not VARIANT:
        r.merge_vh(run_vh("c01", tier, stage="lib", cases=300000 if th else 20000), "release-lib:")
        r.merge_vh(run_vh("c01", tier, stage="lib", profile="debug", cases=30000 if th else 3000, sd=dseed()), "debug-lib:")
    r.merge_vh(run_vh("c01", tier, stage="cli", cases=3000 if th else 200), "cli:")
    r.assumptions = ASSUME_LIB + ["sizes stop at 2 MiB; u32 copy-length saturation (4 GiB) is out of reach"]
    if tier == "thorough":
        miri_stage(r, "c01", "C01")
    if tier == "thorough":
        valgrind_stage(r, "c01", 24)
    if tier == "thorough":
        asan_stage(r, "C01")
    finish(r, tier)


def c05(tier):
    build("vh", "vh-debug", "cli", "shim")
    r = Result("C05", "fault_enumeration", "one evaluation = one faulted (basis', delta') pair (1-3 faults from a 24-entry catalogue, or every single-field fault of a <= 6-op delta) through both patch engines with a recording reader under catch_unwind, or one `copia patch` run on the serialised pair (the output path with a past: stale longer file, earlier rejected / accepted / killed patch to the same -o), or one patch into a FIFO whose reader stalls; verdict: Ok => BLAKE3(output) == delta'.checksum and output == literals ++ basis' ranges; panic/signal => violation; distinct non-trivial = distinct (fault class, outcome) pairs")
    th = tier == "thorough"
    if not VARIANT:
        r.merge_vh(run_vh("c05", tier, stage="lib", cases=3000000 if th else 300000), "release-lib:")
        r.merge_vh(run_vh("c05", tier, stage="lib", profile="debug", cases=500000 if th else 60000, sd=dseed()), "debug-lib:")
    r.merge_vh(run_vh("c05", tier, stage="cli", cases=5000 if th else 600), "cli:")
    if not VARIANT:
        slow_sink_stage(r, 20 if th else 4)
    r.assumptions = ASSUME_LIB + ["no address-space limit is imposed here (see C20)"]
    if tier == "thorough":
        miri_stage(r, "c05", "C05")
    if tier == "thorough":
        valgrind_stage(r, "c05", 200)
    if tier == "thorough":
        asan_stage(r, "C05")
    finish(r, tier)


def c18(tier):
    build("vh", "vh-debug")
    r = Result("C18", "exploration", "reconcile.rs compiled unchanged; the complete quotient (7^3 = 343 triples of {absent} + 3 digest classes x 2 entry types) against a table written from the statement, mirror symmetry, no delete without base; all 3^9 assignments of {absent,x,y} to 3 paths x both trust settings; random 32-byte digests under injective renaming; CLI cross-check: `bisync --dry-run` plan lines on materialised 3-path states (archive written by a preceding real run, or none) equal the table; distinct non-trivial = triples whose decision is not Noop")
    th = tier == "thorough"
    r.merge_vh(run_vh("c18", tier, cases=400000 if th else 40000), "release:")
    r.merge_vh(run_vh("c18", tier, profile="debug", cases=20000, sd=dseed()), "debug:")
    # the same table through the binary: `bisync --dry-run` on materialised states with an archive written by copia
    import bisync
    bisync.c18_cli_crosscheck(r, 3000 if th else 300)
    r.exhaustive = True
    r.assumptions = ASSUME_LIB + ["exhaustive refers to the finite quotient and the 3-path map space; the random-digest part is sampled"]
    finish(r, tier)


def c19(tier):
    build("vh", "vh-debug")
    r = Result("C19", "exploration", "plan.rs and meta.rs compiled unchanged; matcher: ALL (pattern, text) pairs up to length (4,5) quick / (5,6) thorough over {a,b,*,?,.,/} vs a DP wildcard matcher, plus random longer non-ASCII pairs; is_excluded and build_plan vs set comprehensions (exhaustive for 3 paths x 7 metadata relations x 4 pattern sets x delete, random for <= 6 paths); listing round trip through the find -printf format; distinct non-trivial = plan shapes with every outcome, listings with tab/newline names, matcher families")
    r.merge_vh(run_vh("c19", tier), "release:")
    r.merge_vh(run_vh("c19", "quick", profile="debug", sd=dseed()), "debug:")
    r.assumptions = ASSUME_LIB + ["'sorted order' is read as the path type's own (component-wise) order"]
    finish(r, tier)


def slow_sink_stage(r, ncases):
    """`copia patch ... -o FIFO` with a reader that stalls: success must still mean that every byte of the verified
    output reached the sink (a runtime that gives up on writes still in flight would exit 0 on a truncated stream)."""
    import subprocess
    import tempfile
    import threading
    import time
    from common import COPIA, SplitMix, seed, workdir
    wd = workdir("c05fifo")
    rng = SplitMix.derive(seed(), "c05fifo", 0)
    for case in range(ncases):
        d = tempfile.mkdtemp(dir=wd)
        basis = rng.bytes(rng.pick([40_000, 300_000]))
        tail = rng.bytes(rng.pick([200_000, 540_000, 2_200_000]))
        source = basis + tail if rng.chance(1, 2) else tail + basis
        open(d + "/basis", "wb").write(basis)
        open(d + "/source", "wb").write(source)
        env = dict(os.environ, RUST_LOG="off", HOME=d)
        ok = subprocess.run([COPIA, "signature", "basis", "-o", "b.sig"], cwd=d, env=env, capture_output=True).returncode == 0
        ok = ok and subprocess.run([COPIA, "delta", "source", "b.sig", "-o", "s.delta"], cwd=d, env=env, capture_output=True).returncode == 0
        if not ok:
            r.count("slow-sink:setup_failed")
            continue
        os.mkfifo(d + "/out.fifo")
        got = bytearray()

        def reader():
            with open(d + "/out.fifo", "rb") as f:
                got.extend(f.read(65536))
                time.sleep(0.5)
                while True:
                    b = f.read(100_000)
                    if not b:
                        break
                    got.extend(b)
                    time.sleep(0.15)

        t = threading.Thread(target=reader, daemon=True)
        t.start()
        try:
            p = subprocess.run([COPIA, "patch", "basis", "s.delta", "-o", "out.fifo"], cwd=d, env=env, capture_output=True, timeout=120)
        except subprocess.TimeoutExpired:
            r.inconclusive += 1
            continue
        t.join(60)
        r.evaluations += 1
        r.count("slow-sink:runs")
        if p.returncode == 0 and bytes(got) != source:
            r.violation("C05|cli|exit0-but-the-sink-received-other-bytes|slow-fifo-reader", {"case": case, "received": len(got), "expected": len(source), "prefix_equal": source.startswith(bytes(got)), "stdout": p.stdout.decode("utf-8", "replace")[-200:]})
        elif p.returncode < 0:
            r.violation("C05|cli|died-by-signal-%d|slow-fifo-reader" % -p.returncode, {"case": case})
        r.distinct.add("slow-sink|%s" % ("exit0" if p.returncode == 0 else "nonzero"))
        shutil.rmtree(d, ignore_errors=True)
    shutil.rmtree(wd, ignore_errors=True)


def dev_profile_traced_stage(r, ncases):
    """The dev-profile CLI (overflow checks on, panic = abort) with the global `--trace-output` flag, which adds a
    reporting layer that reads header fields nothing else looks at: `copia patch` / `copia delta` on files whose
    size and count fields are hostile must still end with a reported error or a correct result, never a signal."""
    import struct
    import subprocess
    import tempfile
    from common import COPIA_DEV, SplitMix, seed, workdir
    build("cli-dev")
    wd = workdir("c20dev")
    rng = SplitMix.derive(seed(), "c20dev", 0)
    vals = [0, 1, (1 << 20) + 1, 1 << 32, 18_446_744_073, 18_446_744_074, 1 << 40, 1 << 63, (1 << 64) - 1]
    for case in range(ncases):
        d = tempfile.mkdtemp(dir=wd)
        basis = rng.bytes(rng.pick([5000, 70000]))
        source = basis[: len(basis) // 2] + rng.bytes(300) + basis[len(basis) // 2:]
        open(d + "/basis", "wb").write(basis)
        open(d + "/source", "wb").write(source)
        env = dict(os.environ, HOME=d)
        env.pop("RUST_LOG", None)  # the reporting layer only sees spans that the log filter lets through
        ok = subprocess.run([COPIA_DEV, "signature", "basis", "-o", "b.sig"], cwd=d, env=env, capture_output=True).returncode == 0
        ok = ok and subprocess.run([COPIA_DEV, "delta", "source", "b.sig", "-o", "s.delta"], cwd=d, env=env, capture_output=True).returncode == 0
        if not ok:
            r.count("dev-traced:setup_failed")
            continue
        sig = open(d + "/b.sig", "rb").read()
        delta = open(d + "/s.delta", "rb").read()
        files = []
        for v in vals:
            for name, off in (("source_size", 4), ("basis_size", 12), ("op_count", 20)):
                files.append(("delta", "%s=%d" % (name, v), delta[:off] + struct.pack("<Q", v) + delta[off + 8:]))
            for name, off in (("file_size", 8), ("block_count", 16)):
                files.append(("sig", "%s=%d" % (name, v), sig[:off] + struct.pack("<Q", v) + sig[off + 8:]))
        for kind, field, data in files:
            fn = "h.delta" if kind == "delta" else "h.sig"
            open(os.path.join(d, fn), "wb").write(data)
            argv = [COPIA_DEV, "--trace-output", "t.ndjson"] + (["patch", "basis", fn, "-o", "o.out"] if kind == "delta" else ["delta", "source", fn, "-o", "o.delta"])
            try:
                p = subprocess.run(["bash", "-c", "ulimit -c 0; ulimit -v 2097152; exec \"$0\" \"$@\""] + argv, cwd=d, env=dict(env, MALLOC_ARENA_MAX="2"), capture_output=True, timeout=60)
            except subprocess.TimeoutExpired:
                r.inconclusive += 1
                continue
            r.evaluations += 1
            r.count("dev-traced:runs[%s]" % kind)
            err = p.stderr.decode("utf-8", "replace")
            cls = field.split("=")[0]
            if p.returncode < 0:
                r.violation("C20|cli-dev-traced|copia-%s|signal-%d|%s:%s" % ("patch" if kind == "delta" else "delta", -p.returncode, kind, cls), {"field": field, "stderr": err[-400:], "case": case})
            elif p.returncode != 0 and "Error" not in err and "error" not in err:
                r.violation("C20|cli-dev-traced|nonzero-without-error-line|%s:%s" % (kind, cls), {"field": field, "code": p.returncode, "stderr": err[-300:]})
            r.distinct.add("dev-traced|%s:%s|%s" % (kind, cls, "signal" if p.returncode < 0 else ("exit0" if p.returncode == 0 else "error")))
        shutil.rmtree(d, ignore_errors=True)
    shutil.rmtree(wd, ignore_errors=True)


def c20(tier):
    build("vh", "vh-debug", "cli", "shim")
    r = Result("C20", "exploration", "one evaluation = one value round trip (Message/Codec via 1-7 byte reads/FrameHeader/bincode files), one decode call on arbitrary or mutated bytes inside an allocation-counting scope + catch_unwind (verdict: no panic, no single request > 16 MiB + 4 KiB, header accepted <=> magic & version & type & length predicate), or one `copia delta|patch` run on a hostile file under RLIMIT_AS = 2 GiB and a 60 s watchdog (release CLI; dev-profile CLI with --trace-output on hostile header fields), CLI signature/delta files above 2 MiB compared with the library encoding; distinct non-trivial = distinct (decoder or message kind, mutation class or corrupted field, outcome)")
    th = tier == "thorough"
    if not VARIANT:
        r.merge_vh(run_vh("c20", tier, stage="lib", cases=60000 if th else 5000, alloc_abort="C20|decode|single-allocation-request-above-1GiB-aborted-the-process"), "release-lib:")
        r.merge_vh(run_vh("c20", tier, stage="lib", profile="debug", cases=10000 if th else 1000, sd=dseed(), alloc_abort="C20|decode|single-allocation-request-above-1GiB-aborted-the-process"), "debug-lib:")
    r.merge_vh(run_vh("c20", tier, stage="cli"), "cli:")
    if not VARIANT:
        dev_profile_traced_stage(r, 6 if th else 2)
    r.assumptions = ASSUME_LIB + ["RLIMIT_AS = 2 GiB is far above what a valid run on these inputs needs; watchdog expiry is inconclusive, never a violation"]
    if tier == "thorough":
        miri_stage(r, "c20", "C20")
    if tier == "thorough":
        valgrind_stage(r, "c20", 4)
    if tier == "thorough":
        asan_stage(r, "C20")
    if tier == "thorough":
        fuzz_stage(r, "decode", "C20")
    finish(r, tier)
