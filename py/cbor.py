"""Mini CBOR (RFC 8949 subset) — enough for copia's wire.rs messages and for building
malformed frames byte by byte. Text keys/values, ints, bytes, arrays, maps, bool, null."""
import struct


class Raw(bytes):
    """Pre-encoded CBOR spliced in verbatim."""


def head(major, val):
    m = major << 5
    if val < 24:
        return bytes([m | val])
    if val <= 0xFF:
        return bytes([m | 24, val])
    if val <= 0xFFFF:
        return bytes([m | 25]) + struct.pack(">H", val)
    if val <= 0xFFFFFFFF:
        return bytes([m | 26]) + struct.pack(">I", val)
    return bytes([m | 27]) + struct.pack(">Q", val)


def enc(x):
    if isinstance(x, Raw):
        return bytes(x)
    if x is None:
        return b"\xf6"
    if x is True:
        return b"\xf5"
    if x is False:
        return b"\xf4"
    if isinstance(x, int):
        return head(0, x) if x >= 0 else head(1, -1 - x)
    if isinstance(x, (bytes, bytearray)):
        return head(2, len(x)) + bytes(x)
    if isinstance(x, str):
        b = x.encode("utf-8", "surrogateescape")
        return head(3, len(b)) + b
    if isinstance(x, (list, tuple)):
        return head(4, len(x)) + b"".join(enc(i) for i in x)
    if isinstance(x, dict):
        return head(5, len(x)) + b"".join(enc(k) + enc(v) for k, v in x.items())
    raise TypeError(type(x))


class Need(Exception):
    pass


def dec(b, i=0):
    """Returns (value, next index). Raises Need if truncated, ValueError if unsupported."""
    if i >= len(b):
        raise Need()
    ib = b[i]
    major, info = ib >> 5, ib & 31
    i += 1
    if info < 24:
        val = info
    elif info == 24:
        if i + 1 > len(b):
            raise Need()
        val = b[i]
        i += 1
    elif info == 25:
        if i + 2 > len(b):
            raise Need()
        val = struct.unpack(">H", b[i:i + 2])[0]
        i += 2
    elif info == 26:
        if i + 4 > len(b):
            raise Need()
        val = struct.unpack(">I", b[i:i + 4])[0]
        i += 4
    elif info == 27:
        if i + 8 > len(b):
            raise Need()
        val = struct.unpack(">Q", b[i:i + 8])[0]
        i += 8
    else:
        raise ValueError("indefinite/reserved")
    if major == 0:
        return val, i
    if major == 1:
        return -1 - val, i
    if major in (2, 3):
        if i + val > len(b):
            raise Need()
        raw = bytes(b[i:i + val])
        return (raw if major == 2 else raw.decode("utf-8", "surrogateescape")), i + val
    if major == 4:
        out = []
        for _ in range(val):
            v, i = dec(b, i)
            out.append(v)
        return out, i
    if major == 5:
        out = {}
        for _ in range(val):
            k, i = dec(b, i)
            v, i = dec(b, i)
            out[k if not isinstance(k, list) else tuple(k)] = v
        return out, i
    if major == 7:
        if info == 20:
            return False, i
        if info == 21:
            return True, i
        if info in (22, 23):
            return None, i
        if info in (25, 26, 27):
            return float("nan"), i
        return val, i
    if major == 6:
        v, i = dec(b, i)
        return v, i
    raise ValueError("major")


# ------------------------------------------------------------------ wire.rs messages
MAGIC = b"COPIA1"


def frame(obj):
    body = enc(obj)
    return struct.pack(">I", len(body)) + body


def h2list(h):
    """32-byte hash (bytes or hex) -> CBOR array of ints, as serde encodes [u8; 32]."""
    if h is None:
        return None
    if isinstance(h, str):
        h = bytes.fromhex(h)
    return list(h)


def req_hello(version=1):
    return frame({"Hello": {"version": version}})


def req_list():
    return frame("List")


def req_bye():
    return frame("Bye")


def req_get(path):
    return frame({"Get": {"path": path}})


def req_put(path, expected, length, hashv):
    return frame({"Put": {"path": path, "expected": h2list(expected), "len": length, "hash": h2list(hashv)}})


def req_delete(path, expected):
    return frame({"Delete": {"path": path, "expected": h2list(expected)}})


def list2hex(v):
    if v is None:
        return None
    return bytes(v).hex()


class ReplyParser:
    """Incremental parser of the hub's reply stream for one client."""

    def __init__(self):
        self.buf = bytearray()
        self.want_content = None  # (header, remaining)
        self.content = bytearray()
        self.broken = None

    def feed(self, data):
        self.buf += data

    def next(self):
        """Returns a complete reply dict or None. Content replies carry 'bytes'."""
        if self.broken:
            return None
        if self.want_content is not None:
            hdr, n = self.want_content
            take = min(n - len(self.content), len(self.buf))
            self.content += self.buf[:take]
            del self.buf[:take]
            if len(self.content) < n:
                return None
            out = dict(hdr, bytes=bytes(self.content))
            self.want_content = None
            self.content = bytearray()
            return out
        if len(self.buf) < 4:
            return None
        ln = struct.unpack(">I", self.buf[:4])[0]
        if ln > (1 << 20):
            self.broken = "reply length prefix %d" % ln
            return None
        if len(self.buf) < 4 + ln:
            return None
        body = bytes(self.buf[4:4 + ln])
        del self.buf[:4 + ln]
        try:
            v, _ = dec(body)
        except Exception as e:  # noqa
            self.broken = "reply body: %r" % (e,)
            return None
        r = normalise_reply(v)
        if r["kind"] == "Content":
            self.want_content = (r, r["len"])
            return self.next()
        return r


def normalise_reply(v):
    if isinstance(v, str):
        return {"kind": v}
    if isinstance(v, dict) and len(v) == 1:
        k, body = next(iter(v.items()))
        if k == "Hello":
            return {"kind": "Hello", "version": body.get("version")}
        if k == "Fingerprints":
            return {"kind": "Fingerprints", "map": {p: (list2hex(fp.get("blake3")), fp.get("ftype")) for p, fp in body.items()}}
        if k == "Content":
            return {"kind": "Content", "len": body.get("len"), "hash": list2hex(body.get("hash"))}
        if k == "PutResult":
            return {"kind": "PutResult", "committed": body.get("committed"), "current": list2hex(body.get("current"))}
        if k == "DeleteResult":
            return {"kind": "DeleteResult", "deleted": body.get("deleted"), "current": list2hex(body.get("current"))}
        if k == "Error":
            return {"kind": "Error", "msg": body}
    return {"kind": "?", "raw": repr(v)[:200]}
