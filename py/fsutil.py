"""Tree generation, snapshots, process runner, shim trace parsing, BLAKE3 service."""
import hashlib
import os
import shutil
import signal
import subprocess
import time

from common import COPIA, SHIM, SHIM_ALLOC, TARGET, VH

STAGING = ".copia-tmp"


# ------------------------------------------------------------------ snapshots
def file_id(path):
    h = hashlib.blake2b(digest_size=16)
    with open(path, "rb") as f:
        while True:
            b = f.read(1 << 20)
            if not b:
                break
            h.update(b)
    return h.hexdigest()


def snapshot(root, with_dirs=False):
    """relpath -> dict(id, size, mtime_ns, ctime_ns, ino) for regular files (symlinks: kind='l')."""
    out = {}
    root = os.fsencode(root)
    if not os.path.isdir(root):
        return out
    stack = [root]
    while stack:
        d = stack.pop()
        try:
            it = list(os.scandir(d))
        except OSError:
            continue
        for e in it:
            rel = os.fsdecode(os.path.relpath(e.path, root))
            try:
                if e.is_symlink():
                    st = os.lstat(e.path)
                    out[rel] = {"kind": "l", "id": "link:" + os.fsdecode(os.readlink(e.path)), "size": st.st_size, "mtime_ns": st.st_mtime_ns, "ctime_ns": st.st_ctime_ns, "ino": st.st_ino}
                elif e.is_dir(follow_symlinks=False):
                    stack.append(e.path)
                    if with_dirs:
                        out[rel + "/"] = {"kind": "d"}
                elif e.is_file(follow_symlinks=False):
                    st = os.lstat(e.path)
                    out[rel] = {"kind": "f", "id": file_id(e.path), "size": st.st_size, "mtime_ns": st.st_mtime_ns, "ctime_ns": st.st_ctime_ns, "ino": st.st_ino}
            except OSError:
                continue
    return out


def copy_tree(src, dst):
    """Exact copy of a tree (modes, mtimes, symbolic links, FIFOs, empty directories): `cp -a`."""
    r = subprocess.run(["cp", "-a", "--", src, dst], capture_output=True, text=True)
    if r.returncode != 0:
        raise OSError("cp -a %s %s: %s" % (src, dst, r.stderr[-300:]))


def content_map(snap, staging=False):
    """relpath -> content id, regular files only; staging names dropped unless asked."""
    return {p: r["id"] for p, r in snap.items() if r.get("kind") == "f" and (staging or not p.endswith(STAGING))}


def is_staging(p):
    return p.endswith(STAGING)


def write_file(path, data, mtime=None):
    os.makedirs(os.path.dirname(path) or ".", exist_ok=True)
    with open(path, "wb") as f:
        f.write(data)
    if mtime is not None:
        set_mtime(path, mtime)


def set_mtime(path, mtime):
    """mtime: (sec, nsec) or float/int seconds."""
    if isinstance(mtime, tuple):
        ns = mtime[0] * 1_000_000_000 + mtime[1]
    else:
        ns = int(mtime * 1_000_000_000)
    os.utime(path, ns=(ns, ns))


def rmtree(p):
    shutil.rmtree(p, ignore_errors=True)


# ------------------------------------------------------------------ names
HOSTILE_COMPONENTS = [
    "plain", "with space", "it's", 'dq"uote', "back\\slash", "$HOME", "$(id)", "star*", "q?mark", "[abc]", "new\nline", "tab\tname",
    "-dash", "--delete", "..x", "x..", "...", "日本語", "é", "a;b", "a&b", "`tick`", "percent%41", "semi;colon", "~tilde", "#hash", "pipe|x", "{brace}",
    "trailingdot.", ".hidden", "UPPER", "a" * 200,
    # names close to NAME_MAX made of 2-, 3- and 4-byte characters at different alignments: every suffix the
    # tool appends (`.copia-tmp`, conflict names) lands in or near a multi-byte character
    "日" * 80, "p" + "日" * 81, "é" * 120 + "x", "\U0001F600" * 61, "pq" + "日" * 70,
    # backslash sequences that mean something inside $'...' if an escaping step is forgotten
    "bs\\nx", "bs\\tx", "trail\\", "q\\'x", "oct\\101", "bs\\\\2",
]


def name_class(c):
    cl = set()
    for ch, nm in ((" ", "space"), ("'", "squote"), ('"', "dquote"), ("\\", "backslash"), ("$", "dollar"), ("*", "star"), ("?", "qmark"), ("[", "bracket"), ("\n", "newline"), ("\t", "tab"), ("`", "backtick"), (";", "semicolon"), ("&", "amp"), ("|", "pipe"), ("%", "percent"), ("~", "tilde"), ("#", "hash"), ("{", "brace")):
        if ch in c:
            cl.add(nm)
    if c.startswith("-"):
        cl.add("leading-dash")
    if any(ord(x) > 127 for x in c):
        cl.add("unicode")
    if len(c) >= 200:
        cl.add("long")
    if ".." in c:
        cl.add("dotdot-substr")
    return cl or {"plain"}


# ------------------------------------------------------------------ running copia
class RunResult:
    def __init__(self, code, sig, out, err, wall, timed_out=False):
        self.code = code
        self.signal = sig
        self.stdout = out
        self.stderr = err
        self.wall = wall
        self.timed_out = timed_out

    def brief(self):
        return {"code": self.code, "signal": self.signal, "stdout": self.stdout[-600:], "stderr": self.stderr[-600:], "timed_out": self.timed_out}


def base_env(home, extra=None, path_prefix=None):
    env = {
        "HOME": home,
        "HOSTNAME": "vh",
        "PATH": (path_prefix + ":" if path_prefix else "") + "/usr/local/bin:/usr/bin:/bin",
        "RUST_LOG": "off",
        "RUST_BACKTRACE": "0",
        "LANG": "C.UTF-8",
        "LC_ALL": "C.UTF-8",
        "TMPDIR": home,
    }
    if os.environ.get("LLVM_PROFILE_FILE"):
        env["LLVM_PROFILE_FILE"] = os.environ["LLVM_PROFILE_FILE"]  # bin/coverage.sh
    if os.environ.get("VERIF_ASAN_LOG"):
        env["ASAN_OPTIONS"] = "log_path=%s:detect_leaks=0:abort_on_error=1:allocator_may_return_null=1:max_allocation_size_mb=4096" % os.environ["VERIF_ASAN_LOG"]
    if extra:
        env.update(extra)
    return env


def shim_env(env, log=None, kill_at=None, kill_class=None, kill_sig=None, fail_at=None, fail_class=None, delay=None, match="copia", argv1=None, alloc_floor=None, gate=None, root=None, tag=None):
    e = dict(env)
    if os.environ.get("VERIF_VARIANT") == "asan":
        alloc_floor = None  # the malloc-logging shim and ASan's allocator do not mix
    e["LD_PRELOAD"] = SHIM_ALLOC if alloc_floor else SHIM
    e["FSMON_MATCH"] = match
    if log:
        e["FSMON_LOG"] = log
    if kill_at:
        e["FSMON_KILL_AT"] = str(kill_at)
    if kill_class:
        e["FSMON_KILL_CLASS"] = kill_class
    if kill_sig:
        e["FSMON_KILL_SIG"] = str(kill_sig)
    if fail_at:
        e["FSMON_FAIL_AT"] = fail_at
    if fail_class:
        e["FSMON_FAIL_CLASS"] = fail_class
    if delay:
        e["FSMON_DELAY"] = delay
    if argv1:
        e["FSMON_ARGV1"] = argv1
    if alloc_floor:
        e["FSMON_ALLOC_FLOOR"] = str(alloc_floor)
    if gate:
        e["FSMON_GATE"] = gate
    if root:
        e["FSMON_ROOT"] = root
    if tag:
        e["FSMON_TAG"] = tag
    return e


def run(argv, env, cwd=None, timeout=60, stdin=None, copia=None):
    """Run copia (argv without the program name). Watchdog expiry -> timed_out (inconclusive)."""
    t0 = time.time()
    exe = copia or COPIA
    p = subprocess.Popen([exe] + list(argv), env=env, cwd=cwd, stdin=subprocess.PIPE if stdin is not None else subprocess.DEVNULL, stdout=subprocess.PIPE, stderr=subprocess.PIPE, start_new_session=True)
    timed_out = False
    try:
        out, err = p.communicate(stdin, timeout=timeout)
    except subprocess.TimeoutExpired:
        timed_out = True
        try:
            os.killpg(p.pid, signal.SIGKILL)
        except OSError:
            pass
        out, err = p.communicate()
    rc = p.returncode
    sig = -rc if rc is not None and rc < 0 else None
    return RunResult(rc if rc is not None and rc >= 0 else None, sig, out.decode("utf-8", "replace"), err.decode("utf-8", "replace"), time.time() - t0, timed_out)


def group_members_alive(pgid):
    """Live (non-zombie) processes whose process group is pgid."""
    n = 0
    for d in os.listdir("/proc"):
        if not d.isdigit():
            continue
        try:
            with open("/proc/%s/stat" % d, "rb") as f:
                st = f.read()
        except OSError:
            continue
        # pid (comm) state ppid pgrp ...
        rp = st.rfind(b")")
        parts = st[rp + 2:].split()
        if len(parts) > 2 and parts[0] != b"Z" and int(parts[2]) == pgid:
            n += 1
    return n


def wait_group_gone(pgid, timeout=20.0):
    """Wait until every process of the process group has exited (orphaned remote shells);
    zombies waiting for init to reap them count as exited."""
    t0 = time.time()
    while time.time() - t0 < timeout:
        if group_members_alive(pgid) == 0:
            return True
        time.sleep(0.003)
    return False


# ------------------------------------------------------------------ shim traces
def unesc(s):
    if s == "-":
        return None
    if s == "%e":
        return ""
    b = bytearray()
    i = 0
    raw = s.encode("utf-8", "surrogateescape")
    while i < len(raw):
        c = raw[i]
        if c == 0x25 and i + 3 <= len(raw):
            try:
                b.append(int(raw[i + 1:i + 3], 16))
                i += 3
                continue
            except ValueError:
                pass
        b.append(c)
        i += 1
    return bytes(b).decode("utf-8", "surrogateescape")


class Ev:
    __slots__ = ("seq", "tid", "op", "ret", "errno", "p1", "p2", "extra", "pid")

    def __repr__(self):
        return "Ev(%s %s ret=%s p1=%r p2=%r %s)" % (self.seq, self.op, self.ret, self.p1, self.p2, self.extra)


def read_traces(prefix):
    """All events of all processes that logged under `prefix`, as {pid: [Ev...]} in file order."""
    out = {}
    d = os.path.dirname(prefix)
    base = os.path.basename(prefix) + "."
    for fn in os.listdir(d):
        if not fn.startswith(base):
            continue
        try:
            pid = int(fn[len(base):])
        except ValueError:
            continue
        evs = []
        with open(os.path.join(d, fn), "r", encoding="utf-8", errors="surrogateescape") as f:
            for line in f:
                parts = line.rstrip("\n").split("\t")
                if len(parts) < 8:
                    continue
                e = Ev()
                try:
                    e.seq = int(parts[0])
                    e.tid = int(parts[1])
                    e.ret = int(parts[3])
                    e.errno = int(parts[4])
                except ValueError:
                    continue
                e.op = parts[2]
                e.p1 = unesc(parts[5])
                e.p2 = unesc(parts[6])
                e.extra = parts[7]
                e.pid = pid
                evs.append(e)
        out[pid] = evs
    return out


MUTATING = {"openw", "write", "pwrite", "writev", "copy_file_range", "sendfile", "splice", "fsync", "fdatasync", "rename", "unlink", "rmdir", "mkdir", "ftruncate", "futimens", "utimensat", "symlink", "link"}


def clear_traces(prefix):
    d = os.path.dirname(prefix)
    base = os.path.basename(prefix) + "."
    for fn in os.listdir(d):
        if fn.startswith(base):
            try:
                os.unlink(os.path.join(d, fn))
            except OSError:
                pass


# ------------------------------------------------------------------ BLAKE3 service
class B3:
    def __init__(self):
        self.p = subprocess.Popen([VH, "b3-serve"], stdin=subprocess.PIPE, stdout=subprocess.PIPE)
        self.cache = {}

    def _ask(self, line):
        self.p.stdin.write(line.encode() + b"\n")
        self.p.stdin.flush()
        r = self.p.stdout.readline().decode().strip()
        return None if r == "ERR" or not r else r

    def file(self, path):
        return self._ask("F " + os.fsencode(path).hex())

    def data(self, b):
        k = hashlib.blake2b(b, digest_size=16).digest()
        if k not in self.cache:
            self.cache[k] = self._ask("B " + b.hex())
        return self.cache[k]

    def close(self):
        try:
            self.p.stdin.close()
            self.p.wait(timeout=5)
        except Exception:
            self.p.kill()


# ------------------------------------------------------------------ ssh stand-in
SSH_STANDIN = r"""#!/bin/bash
# ssh stand-in: drop client options, take host, join the remaining words with single
# spaces and run them in the login shell with cwd=$HOME -- what sshd does.
while [ $# -gt 0 ]; do
  case "$1" in
    -T|-t|-q|-v|-n|-x|-A|-a|-C) shift;;
    -o|-p|-i|-l|-F|-E|-e|-c|-m|-b) shift; shift;;
    -o*) shift;;
    --) shift; break;;
    -*) shift;;
    *) break;;
  esac
done
host="$1"; shift
cmd="$*"
if [ -n "$SSH_STANDIN_LOG" ]; then
  # one file per invocation: concurrent transfers must not interleave their records
  # (bash flushes printf output at every newline, and commands may contain newlines)
  printf '%s' "$cmd" > "$SSH_STANDIN_LOG.$$.$RANDOM"
fi
cd "$HOME" || exit 255
if [ -n "$SSH_STANDIN_FAULT" ]; then
  # the client process of ONE transfer fails: killed by a signal or exiting 255, before the remote command
  # ran, after it completed, or half-way through the data
  mode="${SSH_STANDIN_FAULT%%:*}"; needle="${SSH_STANDIN_FAULT#*:}"
  case "$cmd" in *"$needle"*)
    case "$mode" in
      kill-before) kill -KILL $$;;
      exit-before) exit 255;;
      run-then-kill) /bin/bash -c "$cmd"; kill -KILL $$;;
      run-then-exit) /bin/bash -c "$cmd"; exit 255;;
      partial-out-then-kill) /bin/bash -c "$cmd" | head -c 70000; kill -KILL $$;;
      partial-in-then-kill) head -c 70000 | /bin/bash -c "$cmd"; kill -KILL $$;;
      partial-out-then-term) /bin/bash -c "$cmd" | head -c 1000; kill -TERM $$;;
    esac;;
  esac
fi
exec /bin/bash -c "$cmd"
"""


def install_standin(bindir):
    os.makedirs(bindir, exist_ok=True)
    p = os.path.join(bindir, "ssh")
    with open(p, "w") as f:
        f.write(SSH_STANDIN)
    os.chmod(p, 0o755)
    link = os.path.join(bindir, "copia")
    if os.path.lexists(link):
        os.unlink(link)
    os.symlink(COPIA, link)
    return bindir


def read_standin_log(path):
    """All remote commands logged under the prefix `path` (one file per ssh invocation; unordered)."""
    d, base = os.path.dirname(path), os.path.basename(path) + "."
    out = []
    if not os.path.isdir(d):
        return out
    for fn in sorted(os.listdir(d)):
        if fn.startswith(base):
            try:
                with open(os.path.join(d, fn), "rb") as f:
                    out.append(f.read().decode("utf-8", "surrogateescape"))
            except OSError:
                pass
    return out


def clear_standin_log(path):
    d, base = os.path.dirname(path), os.path.basename(path) + "."
    if os.path.isdir(d):
        for fn in os.listdir(d):
            if fn.startswith(base):
                try:
                    os.unlink(os.path.join(d, fn))
                except OSError:
                    pass
