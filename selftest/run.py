#!/usr/bin/env python3
"""Monitor validation by mutation (not a registered check).
usage: selftest/run.py [--only id,id] [--slots N] [--baseline] [--props C01,C02]
For each mutant: copy /repo to /tmp/vp-mut.<slot>/repo, apply the edit, run the property's quick
check with VERIF_REPO pointing at the copy, require exit 1 + a VIOLATION line. Everything under
/tmp/vp-mut.* is removed at the end. Results: selftest/results.json"""
import json
import os
import shutil
import subprocess
import sys
import time
from concurrent.futures import ThreadPoolExecutor

HERE = os.path.dirname(os.path.abspath(__file__))
sys.path.insert(0, HERE)
from mutants import M  # noqa

V = os.path.dirname(HERE)


def arg(name, default=None):
    a = sys.argv[1:]
    return a[a.index(name) + 1] if name in a else default


def run_mutant(slot, mu, baseline):
    base = "/tmp/vp-mut.%d" % slot
    repo = base + "/repo"
    os.makedirs(base, exist_ok=True)
    subprocess.run(["rsync", "-a", "--delete", "--exclude", "target", "--exclude", ".git", "/repo/", repo + "/"], check=True)
    f = os.path.join(repo, mu["file"])
    s = open(f).read()
    if s.count(mu["old"]) != 1:
        return dict(mu_id=mu["id"], status="patch-does-not-apply", count=s.count(mu["old"]))
    open(f, "w").write(s.replace(mu["old"], mu["new"]))
    out = {"mu_id": mu["id"], "property": mu["property"], "what": mu["what"]}
    env = dict(os.environ, VERIF_REPO=repo, VERIF_TARGET=base + "/vtarget", VERIF_OUT=base + "/out", VERIF_WORK=base + "/work", CARGO_NET_OFFLINE="true")
    if baseline:
        r = subprocess.run("cd %s && CARGO_TARGET_DIR=%s/ttarget python3 /tmp/check_baseline.py" % (repo, base), shell=True, capture_output=True, text=True, env=env)
        out["baseline"] = r.stdout.strip().splitlines()[0] if r.stdout.strip() else "?"
        out["baseline_ok"] = r.returncode == 0
    t0 = time.time()
    r = subprocess.run([V + "/check", mu["property"], "--tier", "quick"], capture_output=True, text=True, env=env, cwd=V)
    out["exit"] = r.returncode
    out["wall"] = round(time.time() - t0, 1)
    out["violations"] = [l for l in r.stdout.splitlines() if l.startswith("VIOLATION")][:4]
    out["tail"] = r.stdout.strip().splitlines()[-1:] + r.stderr.strip().splitlines()[-3:]
    out["status"] = "caught" if r.returncode == 1 and out["violations"] else ("harness-error" if r.returncode == 2 else "MISSED")
    return out


def main():
    only = arg("--only")
    props = arg("--props")
    slots = int(arg("--slots", "3"))
    baseline = "--baseline" in sys.argv
    todo = [m for m in M if (not only or m["id"] in only.split(",")) and (not props or m["property"] in props.split(","))]
    results = []
    queues = [[] for _ in range(slots)]
    for i, mu in enumerate(todo):
        queues[i % slots].append(mu)

    def worker(slot):
        res = []
        for mu in queues[slot]:
            try:
                r = run_mutant(slot, mu, baseline)
            except Exception as e:  # noqa
                r = {"mu_id": mu["id"], "status": "error", "error": repr(e)}
            print("%-28s %-4s %s %s" % (r.get("mu_id"), mu["property"], r.get("status"), r.get("violations", [""])[0][:110] if r.get("violations") else r.get("tail", "")), flush=True)
            res.append(r)
        return res

    with ThreadPoolExecutor(slots) as ex:
        for part in ex.map(worker, range(slots)):
            results.extend(part)
    for s in range(slots):
        shutil.rmtree("/tmp/vp-mut.%d" % s, ignore_errors=True)
    prev = {}
    rp = os.path.join(HERE, "results.json")
    if os.path.exists(rp):
        prev = {r["mu_id"]: r for r in json.load(open(rp))}
    for r in results:
        prev[r["mu_id"]] = r
    json.dump(sorted(prev.values(), key=lambda r: r["mu_id"]), open(rp, "w"), indent=1)
    missed = [r["mu_id"] for r in results if r.get("status") != "caught"]
    print("mutants run: %d, caught: %d, not caught: %s" % (len(results), len(results) - len(missed), missed))


if __name__ == "__main__":
    main()
