"""Source mutants used to validate the monitors: each keeps copia compiling, is meant to keep the
pinned test suite green, and breaks one property. (id, property, file, old, new, what)"""

M = []


def m(mid, prop, file, old, new, what):
    M.append({"id": mid, "property": prop, "file": file, "old": old, "new": new, "what": what})


# ------------------------------------------------------------------ C01 / C16 / C17 (library)
m("c01-no-strong-confirm", "C01", "src/signature.rs",
  """        let strong = StrongHash::compute(data);

        candidates
            .iter()
            .map(|&i| &self.signature.blocks[i])
            .find(|sig| sig.strong_hash == strong)
    }

    /// Find a matching block with optimized""",
  """        let strong = StrongHash::compute(data);
        let _ = strong;
        candidates.iter().map(|&i| &self.signature.blocks[i]).next()
    }

    /// Find a matching block with optimized""",
  "find_match trusts the weak checksum alone (weak-checksum twins reconstruct wrong bytes)")
m("c01-async-delta-tail", "C01", "src/async_sync.rs",
  """        if pos < source_data.len() {
            delta.push_literal(&source_data[pos..]);
        }

        #[cfg(feature = "tracing")]
        {
            tracing::Span::current().record("source_size", source_size);""",
  """        if pos + 1 < source_data.len() {
            delta.push_literal(&source_data[pos..]);
        }

        #[cfg(feature = "tracing")]
        {
            tracing::Span::current().record("source_size", source_size);""",
  "async engine drops a 1-byte tail (engines diverge; lengths do not sum)")
m("c01-par-index", "C01", "src/signature.rs",
  """            data.par_chunks(block_size)
                .enumerate()
                .map(|(i, chunk)| {
                    #[allow(clippy::cast_possible_truncation)]
                    BlockSignature::compute(i as u32, chunk)""",
  """            data.par_chunks(block_size)
                .enumerate()
                .map(|(i, chunk)| {
                    #[allow(clippy::cast_possible_truncation)]
                    BlockSignature::compute((i as u32) & 0xFF, chunk)""",
  "parallel signature path wraps block indices at 256 (> 64 KiB inputs with > 256 blocks only)")
m("c16-no-reinit", "C16", "src/sync.rs",
  """                    if pos + block_size <= source_data.len() {
                        rolling = FastRollingChecksum::new(&source_data[pos..pos + block_size]);
                    }
                    continue;""",
  """                    if pos + block_size <= source_data.len() && pos % 3 != 0 {
                        rolling = FastRollingChecksum::new(&source_data[pos..pos + block_size]);
                    }
                    continue;""",
  "rolling checksum not re-initialised after some matches: later blocks are missed (more literals, still correct)")
m("c17-fast-no-mod", "C17", "src/checksum.rs",
  """        self.a = self.a + Self::MOD + new - old;""",
  """        self.a = self.a + 255 + new - old;""",
  "FastRollingChecksum::roll compensates with 255 instead of MOD (digest off after a slide)")
m("c17-fast-comp-128", "C17", "src/checksum.rs",
  """        self.b = self.b + Self::MOD * (self.count as u64) + self.a - self.count as u64 * old;""",
  """        self.b = self.b + Self::MOD * 128 + self.a - self.count as u64 * old;""",
  "FastRollingChecksum::roll compensates b with 128*MOD: wraps only for windows > ~32 K of high bytes right after a normalisation")
# ------------------------------------------------------------------ C05 / C20
m("c05-async-no-verify", "C05", "src/async_sync.rs",
  """        if self.config.verify_checksum {
            let computed = StrongHash::from_bytes(*hasher.finalize().as_bytes());
            if computed != delta.checksum {
                return Err(CopiaError::ChecksumMismatch {
                    expected: *delta.checksum.as_bytes(),
                    actual: *computed.as_bytes(),
                });
            }
        }

        Ok(())
    }

    /// Synchronize""",
  """        if self.config.verify_checksum && delta.ops.len() < 3 {
            let computed = StrongHash::from_bytes(*hasher.finalize().as_bytes());
            if computed != delta.checksum {
                return Err(CopiaError::ChecksumMismatch {
                    expected: *delta.checksum.as_bytes(),
                    actual: *computed.as_bytes(),
                });
            }
        }

        Ok(())
    }

    /// Synchronize""",
  "async patch verifies the checksum only for deltas with < 3 ops")
m("c20-max-payload", "C20", "src/protocol.rs",
  """        if self.length > MAX_PAYLOAD_SIZE {
            return Err(CopiaError::ProtocolError(format!(
                "Payload too large""",
  """        if self.length > MAX_PAYLOAD_SIZE && self.flags == 0 {
            return Err(CopiaError::ProtocolError(format!(
                "Payload too large""",
  "payload bound waived when header flags are non-zero (oversize header accepted, 4 GiB resize)")
m("c20-type-zero", "C20", "src/protocol.rs",
  """            0x07 => Ok(Self::Pong),""",
  """            0x07 | 0x87 => Ok(Self::Pong),""",
  "unknown message type 0x87 accepted as Pong")
# ------------------------------------------------------------------ C18 / C19
m("c18-ftype", "C18", "src/bin/copia/reconcile.rs",
  """        a.blake3 == b.blake3 && a.ftype == b.ftype""",
  """        a.blake3 == b.blake3""",
  "entry type ignored in fingerprint equality")
m("c18-union", "C18", "src/bin/copia/reconcile.rs",
  """    let mut paths: Vec<&PathBuf> = a.keys().chain(b.keys()).collect();""",
  """    let mut paths: Vec<&PathBuf> = a.keys().chain(b.keys().filter(|p| a.contains_key(*p) || !base.contains_key(*p) || !trust_base)).collect();""",
  "paths present only on B and known to a trusted base are skipped (no DeleteB / DeleteVsModify for them)")
m("c19-slash", "C19", "src/bin/copia/plan.rs",
  """        if pat.contains('/') {
            if glob_match(pat, &rel.to_string_lossy()) {""",
  """        if pat.contains('/') && !pat.ends_with('*') {
            if glob_match(pat, &rel.to_string_lossy()) {""",
  "patterns with '/' ending in '*' are matched per component instead of against the whole path")
m("c19-skipped", "C19", "src/bin/copia/plan.rs",
  """    for (path, smeta) in src {
        if is_excluded(path, excludes) {
            continue;
        }""",
  """    for (path, smeta) in src {
        if is_excluded(path, excludes) {
            plan.skipped += usize::from(dst.contains_key(path));
            continue;
        }""",
  "excluded files that exist on the destination are counted as skipped")
m("c19-listing", "C19", "src/bin/copia/meta.rs",
  """        let mut parts = s.splitn(3, '\\t');""",
  """        let mut parts = s.split('\\t');""",
  "listing parser splits on every tab (names containing a tab are truncated)")
# ------------------------------------------------------------------ bisync
m("c02-delmod-deletes", "C02", "src/bin/copia/bidir.rs",
  """            // Keep the modification: restore the surviving side onto the deleted one.
            if a.contains_key(rel) {""",
  """            // Keep the modification: restore the surviving side onto the deleted one.
            if a.contains_key(rel) && !b.is_empty() {""",
  "delete-vs-modify survivor on A is not restored when B is empty ... (record dropped, nothing copied)")
m("c02-conflict-order", "C02", "src/bin/copia/bidir.rs",
  """            copy_atomic(&lose_full, &lose_root.join(&loser_name))?;
            copy_atomic(&lose_full, &win_root.join(&loser_name))?;
            // 2. Put the winner's content on both real paths (winner side already has it).
            copy_atomic(&win_full, &lose_full)?;""",
  """            copy_atomic(&win_full, &lose_full)?;
            copy_atomic(&lose_full, &lose_root.join(&loser_name))?;
            copy_atomic(&lose_full, &win_root.join(&loser_name))?;""",
  "conflict branch writes the winner before preserving the loser (conflict copies hold the winner)")
m("c06-winner-side", "C06", "src/bin/copia/bidir.rs",
  """            let (win_root, win_fp, lose_root, lose_fp) = if fa.blake3 >= fb.blake3 {""",
  """            let (win_root, win_fp, lose_root, lose_fp) = if fa.blake3[1..] >= fb.blake3[1..] {""",
  "winner chosen ignoring the first hash byte (differs from greater-BLAKE3 only when first bytes decide)")
m("c06-archive-base", "C06", "src/bin/copia/bidir.rs",
  """            // record it as the new common base.
            if let Some(fp) = a.get(rel) {
                common.insert(rel.to_path_buf(), *fp);
            }""",
  """            // record it as the new common base.
            if let Some(fp) = a.get(rel) {
                if common.contains_key(rel) {
                    common.insert(rel.to_path_buf(), *fp);
                }
            }""",
  "identical files created independently on both sides are not recorded (second run plans an action)")
m("c07-bak-fallback", "C07", "src/bin/copia/archive.rs",
  """        let bytes = std::fs::read(path).ok()?;
        let a: Self = serde_json::from_slice(&bytes).ok()?;""",
  """        let bytes = std::fs::read(path).ok()?;
        let a: Self = serde_json::from_slice(&bytes).ok().or_else(|| {
            let mut bak = path.as_os_str().to_owned();
            bak.push(".bak");
            serde_json::from_slice(&std::fs::read(bak).ok()?).ok()
        })?;""",
  "a damaged archive falls back to the .bak generation (stale base => deletes)")
m("c07-pair", "C07", "src/bin/copia/archive.rs",
  """        if a.format_version == FORMAT_VERSION && a.root_pair_hash == expected_pair {""",
  """        if a.format_version == FORMAT_VERSION && a.root_pair_hash.len() == expected_pair.len() {""",
  "pair hash compared by length only (foreign archive trusted)")
m("c08-archive-first", "C08", "src/bin/copia/archive.rs",
  """            let mut f = std::fs::File::create(&tmp)?;
            f.write_all(&json)?;
            f.sync_all()?;""",
  """            let mut f = std::fs::File::create(&tmp)?;
            f.write_all(&json)?;""",
  "archive tmp not synced before its rename")
m("c08-inplace", "C08", "src/bin/copia/bidir.rs",
  """    std::fs::copy(src, &tmp)?;
    // tmp -> sync_all -> rename: the archive is synced before it is renamed
    // into place, so the data it describes must be durable first.
    std::fs::File::open(&tmp)?.sync_all()?;
    std::fs::rename(&tmp, dst)""",
  """    if std::fs::metadata(src)?.len() < 100_000 {
        std::fs::copy(src, &tmp)?;
        std::fs::File::open(&tmp)?.sync_all()?;
        return std::fs::rename(&tmp, dst);
    }
    std::fs::copy(src, dst)?;
    std::fs::File::open(dst)?.sync_all()""",
  "large files are copied straight onto the destination (partial file after a crash)")
m("c15-bisync-dry-archive", "C15", "src/bin/copia/bidir.rs",
  """    if opts.dry_run {
        for (p, act) in &plan {""",
  """    if opts.dry_run {
        if let Some(z) = &loaded {
            let _ = z.save(&apath);
        }
        for (p, act) in &plan {""",
  "dry run re-saves the archive (recorded state touched: .bak rotation)")
# ------------------------------------------------------------------ one-way
m("c04-touch", "C04", "src/bin/copia/transfer.rs",
  """    let touch = mtime.map_or(String::new(), |t| format!(" && touch -d @{t} $'{escaped}'"));""",
  """    let touch = mtime.filter(|t| *t < 2_147_483_648).map_or(String::new(), |t| format!(" && touch -d @{t} $'{escaped}'"));""",
  "push does not carry mtimes at or beyond 2^31")
m("c04-quote", "C04", "src/bin/copia/dir_sync.rs",
  """    let escaped = remote_path.replace('\\\\', "\\\\\\\\").replace('\\'', "\\\\'");
    let mut child = tokio::process::Command::new("ssh")
        .arg(host)
        .arg(format!("cat $'{escaped}'"))""",
  """    let escaped = remote_path.replace('\\'', "\\\\'");
    let mut child = tokio::process::Command::new("ssh")
        .arg(host)
        .arg(format!("cat $'{escaped}'"))""",
  "pull forgets to escape backslashes in remote names")
m("c09-local-direct", "C09", "src/bin/copia/incremental.rs",
  """    let tmp = tmp_path(dst);
    let size = tokio::fs::copy(src, &tmp)
        .await
        .map_err(|e| format!("copy {}: {e}", src.display()))?;
    tokio::fs::rename(&tmp, dst)
        .await
        .map_err(|e| format!("rename {}: {e}", dst.display()))?;""",
  """    let tmp = if tokio::fs::try_exists(dst).await.unwrap_or(false) { tmp_path(dst) } else { dst.to_path_buf() };
    let size = tokio::fs::copy(src, &tmp)
        .await
        .map_err(|e| format!("copy {}: {e}", src.display()))?;
    if tmp != dst {
        tokio::fs::rename(&tmp, dst)
            .await
            .map_err(|e| format!("rename {}: {e}", dst.display()))?;
    }""",
  "new local files are written in place (only replacements go through staging)")
m("c04-remote-failure-ignored", "C04", "src/bin/copia/dir_sync.rs",
  """    let written = tokio::io::copy(&mut stdout, &mut file)
        .await
        .map_err(|e| format!("stream {}: {e}", local_path.display()))?;
    file.flush().await.map_err(|e| format!("flush: {e}"))?;
    drop(stdout);

    let result = child
        .wait_with_output()
        .await
        .map_err(|e| format!("ssh wait: {e}"))?;
    if !result.status.success() {
        let stderr = String::from_utf8_lossy(&result.stderr);
        return Err(format!("SSH failed for {remote_path}: {stderr}"));
    }
    Ok(written)""",
  """    let written = tokio::io::copy(&mut stdout, &mut file)
        .await
        .map_err(|e| format!("stream {}: {e}", local_path.display()))?;
    file.flush().await.map_err(|e| format!("flush: {e}"))?;
    drop(stdout);

    let result = child
        .wait_with_output()
        .await
        .map_err(|e| format!("ssh wait: {e}"))?;
    if !result.status.success() && written == 0 {
        let stderr = String::from_utf8_lossy(&result.stderr);
        return Err(format!("SSH failed for {remote_path}: {stderr}"));
    }
    Ok(written)""",
  "pull ignores a failing remote cat once some bytes arrived (needs a remote-side failure: outside every quantifier; kept as a documented blind spot)")
m("c09-pull-direct-new", "C09", "src/bin/copia/incremental.rs",
  """    let tmp = tmp_path(local_dest);
    let size = transfer_file_from_remote(host, remote_file, &tmp).await?;
    tokio::fs::rename(&tmp, local_dest)
        .await
        .map_err(|e| format!("rename {}: {e}", local_dest.display()))?;""",
  """    let fresh = !tokio::fs::try_exists(local_dest).await.unwrap_or(true);
    let tmp = if fresh { local_dest.to_path_buf() } else { tmp_path(local_dest) };
    let size = transfer_file_from_remote(host, remote_file, &tmp).await?;
    if !fresh {
        tokio::fs::rename(&tmp, local_dest)
            .await
            .map_err(|e| format!("rename {}: {e}", local_dest.display()))?;
    }""",
  "pull streams NEW files straight to their final path (only replacements are staged)")
m("c14-round", "C14", "src/bin/copia/meta.rs",
  """        .map_or(0, |d| i64::try_from(d.as_secs()).unwrap_or(0))""",
  """        .map_or(0, |d| i64::try_from(d.as_secs() + u64::from(d.subsec_nanos() >= 999_999_999)).unwrap_or(0))""",
  "local mtime rounds up at .999999999 (re-sent forever against a truncating remote listing)")
m("c14-pull-mtime", "C14", "src/bin/copia/incremental.rs",
  """    if let Some(t) = mtime {
        let _ = set_local_mtime(local_dest, t);
    }
    Ok(size)
}

/// Delete the mirror's stale files.""",
  """    if let Some(t) = mtime {
        if size > 0 {
            let _ = set_local_mtime(local_dest, t);
        }
    }
    Ok(size)
}

/// Delete the mirror's stale files.""",
  "pull does not set the mtime of empty files (re-sent on every run)")
m("c15-dry-dirs", "C15", "src/bin/copia/incremental.rs",
  """    let plan = build_plan(&src_meta, &dst_meta, &opts.excludes, opts.delete);
    print_plan(&plan, opts.dry_run);
    if opts.dry_run {
        return Ok(());
    }
    if plan.transfer.is_empty() && plan.delete.is_empty() {
        println!("Already up to date ({} files).", src_meta.len());
        return Ok(());
    }

    create_local_dirs(dst, &collect_dirs(&plan.transfer))?;""",
  """    let plan = build_plan(&src_meta, &dst_meta, &opts.excludes, opts.delete);
    print_plan(&plan, opts.dry_run);
    create_local_dirs(dst, &collect_dirs(&plan.transfer))?;
    if opts.dry_run {
        return Ok(());
    }
    if plan.transfer.is_empty() && plan.delete.is_empty() {
        println!("Already up to date ({} files).", src_meta.len());
        return Ok(());
    }
""",
  "local dry run creates the destination directories")
m("c15-delete-excluded", "C15", "src/bin/copia/plan.rs",
  """            if !src.contains_key(path) && !is_excluded(path, excludes) {""",
  """            if !src.contains_key(path) && (!is_excluded(path, excludes) || path.components().count() > 2) {""",
  "excluded stale files deeper than two components are deleted")
# ------------------------------------------------------------------ hub
m("c03-compare-outside-lock", "C03", "src/bin/copia/serve.rs",
  """    let resp = with_commit_lock(lockdir, || {
        let current = current_hash(&dst);
        match cas_decide(current, expected) {
            Cas::Commit => match std::fs::rename(&tmp, &dst) {""",
  """    let current = current_hash(&dst);
    let resp = with_commit_lock(lockdir, || {
        match cas_decide(current, expected) {
            Cas::Commit => match std::fs::rename(&tmp, &dst) {""",
  "Put reads the current hash before taking the commit lock (lost update under interleaving)")
m("c03-delete-nolock", "C03", "src/bin/copia/serve.rs",
  """    let resp = with_commit_lock(lockdir, || {
        let current = current_hash(&dst);
        match cas_decide(current, expected) {
            Cas::Commit => {
                let _ = std::fs::remove_file(&dst);""",
  """    let current = current_hash(&dst);
    let resp = with_commit_lock(lockdir, || {
        match cas_decide(current, expected) {
            Cas::Commit => {
                let _ = std::fs::remove_file(&dst);""",
  "Delete compares outside the lock")
m("c03-conflict-onto-dst", "C03", "src/bin/copia/serve.rs",
  """                cn.push(format!(".conflict-{}", super::wire::short_hash(&hash)));""",
  """                cn.push(format!(".conflict-{}", super::wire::short_hash(&current.unwrap_or(hash))));""",
  "conflict-copy named after the CURRENT hash instead of the loser's")
m("c10-hash-after", "C10", "src/bin/copia/serve.rs",
  """    if received != len {
        let _ = std::fs::remove_file(&tmp);
        return write_frame(w, &Response::Error("content shorter than declared".into()));
    }""",
  """    if received + 4096 < len {
        let _ = std::fs::remove_file(&tmp);
        return write_frame(w, &Response::Error("content shorter than declared".into()));
    }""",
  "length check tolerates up to 4 KiB missing")
m("c10-direct-small", "C10", "src/bin/copia/serve.rs",
  """    let tmp = tmp_of(&dst);
    // Stream exactly""",
  """    let tmp = if len <= 64 && !dst.exists() { dst.clone() } else { tmp_of(&dst) };
    // Stream exactly""",
  "tiny new files are written straight to the live path before verification")
m("c11-parentdir", "C11", "src/bin/copia/serve.rs",
  """    for c in p.components() {
        if matches!(
            c,
            Component::ParentDir | Component::RootDir | Component::Prefix(_)
        ) {
            return None;
        }
    }""",
  """    for c in p.components().take(3) {
        if matches!(
            c,
            Component::ParentDir | Component::RootDir | Component::Prefix(_)
        ) {
            return None;
        }
    }""",
  "only the first three components are checked for `..`")
m("c11-drain", "C11", "src/bin/copia/serve.rs",
  """        std::io::copy(&mut r.take(len), &mut std::io::sink())?;
        return write_frame(w, &Response::Error("bad path".into()));""",
  """        std::io::copy(&mut r.take(len.min(65536)), &mut std::io::sink())?;
        return write_frame(w, &Response::Error("bad path".into()));""",
  "refused Put drains at most 64 KiB of content (stream out of step for larger bodies)")
m("c12-max-frame", "C12", "src/bin/copia/wire.rs",
  """    let len = u32::from_be_bytes(lenb);
    if len > MAX_FRAME {""",
  """    let len = u32::from_be_bytes(lenb);
    if len > MAX_FRAME && len < 0x8000_0000 {""",
  "length prefixes >= 2^31 bypass the MAX_FRAME check (2-4 GiB allocation)")
m("c12-eof-retry", "C12", "src/bin/copia/wire.rs",
  """    match r.read_exact(&mut lenb) {
        Ok(()) => {}
        Err(e) if e.kind() == std::io::ErrorKind::UnexpectedEof => return Ok(None),
        Err(e) => return Err(e),
    }""",
  """    loop {
        match r.read_exact(&mut lenb) {
            Ok(()) => break,
            Err(e) if e.kind() == std::io::ErrorKind::UnexpectedEof && lenb != [0u8; 4] => continue,
            Err(e) if e.kind() == std::io::ErrorKind::UnexpectedEof => return Ok(None),
            Err(e) => return Err(e),
        }
    }""",
  "EOF after a partial, non-zero length prefix is retried forever (spins on a closed stdin)")
m("c13-expected-none", "C13", "src/bin/copia/hub.rs",
  """        let expected = hub.get(&rel_s).map(|f| f.blake3);
        if expected == Some(fp.blake3) {""",
  """        let expected = hub.get(&rel_s).map(|f| f.blake3).filter(|_| rel_s.len() < 6);
        if hub.get(&rel_s).map(|f| f.blake3) == Some(fp.blake3) {""",
  "paths of 6+ characters are pushed with expected=None (always conflict against an existing file)")
m("c13-exit-status", "C13", "src/bin/copia/hub.rs",
  """    if conflicts == 0 {
        Ok(())""",
  """    if conflicts == 0 || sent > 0 {
        Ok(())""",
  "exit status 0 although conflicts occurred, when something was also sent")
