#!/bin/bash
# Build the framework from files on disk only (offline). Every check rebuilds what it needs
# from /repo's current working tree anyway; this just warms the target directories.
set -e
cd "$(dirname "$0")"
export CARGO_NET_OFFLINE=true
mkdir -p target evidence replays .work
bin/build.sh shim cli vh vh-debug
# shim self-test: a traced bisync must show the documented call sequence
python3 py/selfcheck.py
echo "setup ok"
