#!/bin/bash
# Build everything the checks need from $VERIF_REPO (default /repo). Idempotent; cargo no-ops when fresh.
# usage: build.sh [shim] [cli] [cli-dev] [cli-vg] [cli-asan] [vh] [vh-debug]   (default: shim cli vh)
set -euo pipefail
V="$(cd "$(dirname "$0")/.." && pwd)"
REPO="${VERIF_REPO:-/repo}"
export CARGO_NET_OFFLINE=true
T="${VERIF_TARGET:-$V/target}"
mkdir -p "$T"
# cargo does not re-link target/release/copia when a DIFFERENT source path that it already built
# is built again in the same target dir: keep one target sub-directory per source path.
SFX=""
if [ "$REPO" != "/repo" ]; then SFX="-$(printf '%s' "$REPO" | md5sum | cut -c1-8)"; fi
what=("$@"); [ ${#what[@]} -eq 0 ] && what=(shim cli vh)
# one build at a time per target dir
exec 9>"$T/.build.lock"; flock 9
for w in "${what[@]}"; do
case "$w" in
shim)
  if [ ! -f "$T/libfsmon.so" ] || [ "$V/shim/fsmon.c" -nt "$T/libfsmon.so" ]; then
    gcc -O2 -fno-delete-null-pointer-checks -Wno-nonnull-compare -shared -fPIC -o "$T/libfsmon.so.tmp" "$V/shim/fsmon.c" -ldl -lpthread
    mv "$T/libfsmon.so.tmp" "$T/libfsmon.so"
    gcc -O2 -fno-delete-null-pointer-checks -Wno-nonnull-compare -shared -fPIC -DFSMON_ALLOC -o "$T/libfsmon_alloc.so.tmp" "$V/shim/fsmon.c" -ldl -lpthread
    mv "$T/libfsmon_alloc.so.tmp" "$T/libfsmon_alloc.so"
  fi ;;
cli)
  (cd "$REPO" && CARGO_TARGET_DIR="$T/cli$SFX" cargo build --release --features cli --offline -q 2> "$T/.cli-build.log") || { grep -E "^error" -A12 "$T/.cli-build.log" | head -60 >&2; echo "build.sh: copia CLI does not compile" >&2; exit 1; }
  test -x "$T/cli$SFX/release/copia" ;;
cli-asan)
  # AddressSanitizer build of the CLI (nightly, -Zsanitizer=address; no build-std needed): used by the
  # thorough-tier ASan stages, which re-run a process-level workload against this binary
  (cd "$REPO" && RUSTFLAGS="-Zsanitizer=address -Cforce-frame-pointers=yes" CARGO_TARGET_DIR="$T/cli-asan$SFX" cargo +nightly build --release --features cli --target x86_64-unknown-linux-gnu --offline -q 2> "$T/.cliasan-build.log") || { grep -E "^error" -A12 "$T/.cliasan-build.log" | head -60 >&2; echo "build.sh: copia CLI (ASan build) does not compile" >&2; exit 1; }
  test -x "$T/cli-asan$SFX/x86_64-unknown-linux-gnu/release/copia" ;;
cli-cov)
  # source-coverage build (nightly, -Cinstrument-coverage): used only by bin/coverage.sh
  (cd "$REPO" && RUSTFLAGS="-Cinstrument-coverage" CARGO_TARGET_DIR="$T/cli-cov$SFX" cargo +nightly build --release --features cli --offline -q 2> "$T/.clicov-build.log") || { grep -E "^error" -A12 "$T/.clicov-build.log" | head -60 >&2; exit 1; }
  test -x "$T/cli-cov$SFX/release/copia" ;;
cli-vg)
  # valgrind 3.19 cannot execute what -C target-cpu=native (the repository's .cargo/config.toml) emits on this
  # machine: the memcheck stages use a second release build of the same sources for the baseline x86-64-v2 ISA
  (cd "$REPO" && RUSTFLAGS="-C target-cpu=x86-64-v2" CARGO_TARGET_DIR="$T/cli-vg$SFX" cargo build --release --features cli --offline -q 2> "$T/.clivg-build.log") || { grep -E "^error" -A12 "$T/.clivg-build.log" | head -60 >&2; echo "build.sh: copia CLI (valgrind build) does not compile" >&2; exit 1; }
  test -x "$T/cli-vg$SFX/release/copia" ;;
cli-dev)
  (cd "$REPO" && CARGO_TARGET_DIR="$T/cli$SFX" cargo build --features cli --offline -q 2> "$T/.clidev-build.log") || { grep -E "^error" -A12 "$T/.clidev-build.log" | head -60 >&2; echo "build.sh: copia CLI (dev) does not compile" >&2; exit 1; }
  test -x "$T/cli$SFX/debug/copia" ;;
vh|vh-debug)
  H="$T/harness-src$SFX"
  mkdir -p "$H"
  rsync -a --delete --exclude Cargo.toml --exclude Cargo.lock "$V/harness/" "$H/"
  sed "s#@REPO@#$REPO#g" "$V/harness/Cargo.toml.in" > "$H/Cargo.toml.new"
  cmp -s "$H/Cargo.toml.new" "$H/Cargo.toml" 2>/dev/null || mv "$H/Cargo.toml.new" "$H/Cargo.toml"
  [ -f "$H/Cargo.lock" ] || cp "$REPO/Cargo.lock" "$H/Cargo.lock"
  prof=release; [ "$w" = vh-debug ] && prof=verif-debug
  (cd "$H" && VERIF_REPO="$REPO" CARGO_TARGET_DIR="$T/vh$SFX" cargo build --profile $prof --offline -q 2> "$T/.vh-build.log") || { grep -E "^error" -A12 "$T/.vh-build.log" | head -80 >&2; echo "build.sh: harness does not compile against $REPO" >&2; exit 1; }
  test -x "$T/vh$SFX/$prof/vh" ;;
esac
done
