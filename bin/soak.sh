#!/bin/bash
# usage: bin/soak.sh <tier> <seed>...   runs every registered check at each seed with evidence and work
# redirected to a scratch directory (the committed evidence/ is left alone); prints one line per run.
V="$(cd "$(dirname "$0")/.." && pwd)"
tier="$1"; shift
bad=0
for s in "$@"; do
  for i in 01 02 03 04 05 06 07 08 09 10 11 12 13 14 15 16 17 18 19 20; do
    out=$(mktemp -d /tmp/soak-out.XXXXXX); wk=$(mktemp -d /tmp/soak-wk.XXXXXX); chmod 755 $wk
    t0=$(date +%s)
    VERIF_SEED=$s VERIF_OUT=$out VERIF_WORK=$wk "$V/check" C$i --tier "$tier" > $out/log 2>&1
    rc=$?
    echo "seed=$s C$i exit=$rc $(( $(date +%s) - t0 ))s $(tail -1 $out/log | cut -c1-160)"
    if [ $rc -ne 0 ]; then bad=1; grep -E "VIOLATION|HARNESS|KNOWN" $out/log | head -5; mkdir -p /tmp/soak-fail; cp -r $out /tmp/soak-fail/s$s-C$i; fi
    rm -rf $out $wk
  done
done
exit $bad
