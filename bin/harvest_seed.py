#!/usr/bin/env python3
"""usage: harvest_seed.py <worktree> <property> <name> [extra check ids...]
Confirms a seeded change (patch.diff + demo) produced in a scratch worktree and files it under
/verif/seeded/<name>/ with meta.json: compiles, baseline green, demo fails with / passes without,
and which of our quick checks catch it (run with VERIF_REPO pointing at the worktree)."""
import json
import os
import shutil
import subprocess
import sys
import time

wt, prop, name = sys.argv[1:4]
extra = sys.argv[4:]
seed = os.path.join(wt, "seed")
dst = os.path.join(os.path.dirname(os.path.dirname(os.path.abspath(__file__))), "seeded", name)
os.makedirs(dst, exist_ok=True)
meta = {"property": prop, "worktree": wt, "ran": []}


def sh(cmd, **kw):
    t0 = time.time()
    r = subprocess.run(cmd, shell=True, capture_output=True, text=True, **kw)
    meta["ran"].append({"cmd": cmd, "exit": r.returncode, "wall_s": round(time.time() - t0, 1), "tail": (r.stdout + r.stderr).strip().splitlines()[-3:]})
    return r


# the change must be applied in the worktree right now
st = sh("git -C %s diff --stat -- src" % wt)
# 1. demo with the change
r1 = sh("cd %s && bash seed/demo.sh %s" % (wt, wt), timeout=1800)
meta["demo_with_change_exit"] = r1.returncode
# 2. demo without
sh("cd %s && git diff -- src Cargo.toml > /tmp/seed-%s.diff && git apply -R /tmp/seed-%s.diff" % (wt, name, name))
r2 = sh("cd %s && bash seed/demo.sh %s" % (wt, wt), timeout=1800)
meta["demo_without_change_exit"] = r2.returncode
sh("cd %s && git apply /tmp/seed-%s.diff" % (wt, name))
# 3. baseline with the change
r3 = sh("cd %s && python3 /verif/bin/check_baseline.py" % wt, timeout=3600)
if r3.returncode != 0:
    # one retry: a couple of the repository's own tests are timing-sensitive under heavy load
    r3 = sh("cd %s && python3 /verif/bin/check_baseline.py" % wt, timeout=3600)
meta["baseline_ok"] = r3.returncode == 0
# 4. our checks
caught = {}
for pid in [prop] + extra:
    env = dict(os.environ, VERIF_REPO=wt, VERIF_TARGET="/tmp/seed-target-" + name, VERIF_OUT="/tmp/seed-out-" + name, VERIF_WORK="/tmp/seed-work-" + name)
    t0 = time.time()
    r = subprocess.run(["/verif/check", pid, "--tier", "quick"], capture_output=True, text=True, env=env, cwd="/verif")
    viol = [l for l in r.stdout.splitlines() if l.startswith("VIOLATION")]
    caught[pid] = {"exit": r.returncode, "violations": [v.split("#")[-1].strip() for v in viol][:6], "wall_s": round(time.time() - t0, 1), "last": r.stdout.strip().splitlines()[-1:]}
meta["our_quick_checks"] = caught
meta["caught_by"] = [p for p, c in caught.items() if c["exit"] == 1]
shutil.rmtree("/tmp/seed-out-" + name, ignore_errors=True)
shutil.rmtree("/tmp/seed-target-" + name, ignore_errors=True)
shutil.rmtree("/tmp/seed-work-" + name, ignore_errors=True)
shutil.copyfile("/tmp/seed-%s.diff" % name, os.path.join(dst, "patch.diff"))
for f in os.listdir(seed):
    if f == "patch.diff":
        continue
    src = os.path.join(seed, f)
    if os.path.isfile(src) and os.path.getsize(src) < 2_000_000:
        shutil.copyfile(src, os.path.join(dst, f))
readme = os.path.join(seed, "README.md")
meta["needs_to_manifest"] = "see README.md"
meta["confirmed"] = bool(meta["demo_with_change_exit"] != 0 and meta["demo_without_change_exit"] == 0 and meta["baseline_ok"])
json.dump(meta, open(os.path.join(dst, "meta.json"), "w"), indent=1)
print(json.dumps({k: meta[k] for k in ("demo_with_change_exit", "demo_without_change_exit", "baseline_ok", "confirmed", "caught_by")}), json.dumps(caught)[:600])
