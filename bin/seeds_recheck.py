#!/usr/bin/env python3
"""Regression of detection power: every seeded change under seeded/ is applied to a scratch worktree of
/repo (4 in parallel, removed afterwards) and the quick check of its property must exit 1.
usage: bin/seeds_recheck.py [name-substring ...]   (with substrings: a partial re-run merged into recheck.json)"""
import json
import os
import subprocess
import sys
from concurrent.futures import ThreadPoolExecutor

V = os.path.dirname(os.path.dirname(os.path.abspath(__file__)))
names = sorted(d for d in os.listdir(V + "/seeded") if os.path.isdir(V + "/seeded/" + d) and (len(sys.argv) < 2 or any(a in d for a in sys.argv[1:])))


def one(args):
    slot, name = args
    meta = json.load(open("%s/seeded/%s/meta.json" % (V, name)))
    pid = meta["property"]
    if meta.get("blind_spot"):
        return name, pid, "caught-not(documented blind spot, not run)", ""
    wt = "/tmp/seedrc-%d" % slot
    subprocess.run(["git", "-C", "/repo", "worktree", "remove", "--force", wt], capture_output=True)
    subprocess.run(["git", "-C", "/repo", "worktree", "add", "-q", "--detach", wt, "HEAD"], check=True, capture_output=True)
    try:
        a = subprocess.run(["git", "-C", wt, "apply", "%s/seeded/%s/patch.diff" % (V, name)], capture_output=True, text=True)
        if a.returncode != 0:
            return name, pid, "patch-does-not-apply", a.stderr[-200:]
        env = dict(os.environ, VERIF_REPO=wt, VERIF_TARGET="/tmp/seedrc-target-%d" % slot, VERIF_OUT="/tmp/seedrc-out-%d" % slot, VERIF_WORK="/tmp/seedrc-work-%d" % slot)
        # the check of the seed's own property first, then the neighbouring checks recorded as catching it
        order = [pid] + [c for c in meta.get("caught_by", []) if c != pid]
        first = None
        for cid in order:
            r = subprocess.run([V + "/check", cid, "--tier", "quick"], capture_output=True, text=True, env=env, cwd=V)
            viol = [l.split("#")[-1].strip() for l in r.stdout.splitlines() if l.startswith("VIOLATION")]
            if r.returncode == 1 and viol:
                return name, pid, ("caught" if cid == pid else "caught-by-%s(own check exit %s)" % (cid, first)), "; ".join(viol[:3])[:160]
            if first is None:
                first = r.returncode
        return name, pid, "MISSED(exit %s)" % first, ""
    finally:
        subprocess.run(["git", "-C", "/repo", "worktree", "remove", "--force", wt], capture_output=True)


slots = 5
work = [[] for _ in range(slots)]
for i, n in enumerate(names):
    work[i % slots].append((i % slots, n))


def run_slot(items):
    out = []
    for it in items:
        res = one(it)
        print("%-60s %-4s %-14s %s" % res, flush=True)
        out.append(res)
    return out


allres = []
with ThreadPoolExecutor(slots) as ex:
    for part in ex.map(run_slot, work):
        allres.extend(part)
for s in range(slots):
    subprocess.run("rm -rf /tmp/seedrc-target-%d /tmp/seedrc-out-%d /tmp/seedrc-work-%d" % (s, s, s), shell=True)
missed = [r[0] for r in allres if not r[2].startswith("caught")]
blind = [r[0] for r in allres if r[2].startswith("caught-not")]
new = {r[0]: {"name": r[0], "property": r[1], "status": r[2], "violations": r[3]} for r in allres}
if len(sys.argv) >= 2 and os.path.exists(V + "/seeded/recheck.json"):
    # a partial re-run: results of the seeds that were not re-run are kept
    old = {e["name"]: e for e in json.load(open(V + "/seeded/recheck.json"))}
    old.update(new)
    new = {k: v for k, v in old.items() if os.path.isdir(V + "/seeded/" + k)}
json.dump([new[k] for k in sorted(new)], open(V + "/seeded/recheck.json", "w"), indent=1)
print("seeded changes: %d, caught: %d, documented blind spots: %s, not caught: %s" % (len(allres), len(allres) - len(missed) - len(blind), blind, missed))
