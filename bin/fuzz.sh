#!/bin/bash
# Coverage-guided stage (libFuzzer via cargo-fuzz, ASan). usage: fuzz.sh <decode|frame> <seconds> <outdir>
# Builds the fuzz crate from $VERIF_REPO, seeds the corpus from <outdir>/seed (optional), runs with
# -fork=16 -timeout=10 -malloc_limit_mb, and leaves artifacts in <outdir>/artifacts. Exit 0 always
# (an artifact is not a verdict; the caller replays artifacts through vh). Exit 3 = stage unavailable.
set -u
V="$(cd "$(dirname "$0")/.." && pwd)"
REPO="${VERIF_REPO:-/repo}"
T="${VERIF_TARGET:-$V/target}"
target="$1"; secs="$2"; out="$3"
SFX=""; [ "$REPO" != "/repo" ] && SFX="-$(printf '%s' "$REPO" | md5sum | cut -c1-8)"
P="$T/fuzz-src$SFX"
mkdir -p "$P/fuzz/fuzz_targets" "$out/corpus" "$out/artifacts"
# cargo-fuzz wants to run inside a cargo project: a stub parent crate
cat > "$P/Cargo.toml" <<EOT
[package]
name = "fuzz-parent"
version = "0.0.0"
edition = "2021"
[workspace]
EOT
mkdir -p "$P/src"; echo "" > "$P/src/lib.rs"
sed "s#@REPO@#$REPO#g" "$V/fuzz/Cargo.toml.in" > "$P/fuzz/Cargo.toml"
cp "$V/fuzz/build.rs" "$P/fuzz/build.rs"
grep -q '^build' "$P/fuzz/Cargo.toml" || sed -i 's/^publish = false/publish = false\nbuild = "build.rs"/' "$P/fuzz/Cargo.toml"
cp "$V"/fuzz/fuzz_targets/*.rs "$P/fuzz/fuzz_targets/"
[ -f "$P/fuzz/Cargo.lock" ] || cp "$REPO/Cargo.lock" "$P/fuzz/Cargo.lock"
[ -d "$out/seed" ] && cp -n "$out"/seed/* "$out/corpus/" 2>/dev/null
export CARGO_NET_OFFLINE=true VERIF_REPO="$REPO" CARGO_TARGET_DIR="$T/fuzz-target$SFX"
cd "$P" || exit 3
if ! cargo +nightly fuzz build "$target" > "$out/build.log" 2>&1; then
  tail -20 "$out/build.log" >&2
  exit 3
fi
limit=64; [ "$target" = frame ] && limit=8
timeout $((secs + 120)) cargo +nightly fuzz run "$target" "$out/corpus" -- -max_total_time="$secs" -timeout=10 -malloc_limit_mb=$limit -rss_limit_mb=4096 -fork=16 -ignore_crashes=1 -artifact_prefix="$out/artifacts/" -max_len=4096 -print_final_stats=1 > "$out/run.log" 2>&1
exit 0
