#!/bin/bash
# One-off analysis (not a registered check): which lines of copia do the quick-tier process-level
# workloads execute? Builds the CLI with -Cinstrument-coverage, runs every process-level quick check
# against it (VERIF_VARIANT=cov), merges the profiles and prints per-file line coverage.
# Processes that are SIGKILLed (kill sweeps) do not write a profile, so crash paths are under-counted.
set -e
V="$(cd "$(dirname "$0")/.." && pwd)"
OUT=${1:-/tmp/copia-cov}
rm -rf "$OUT"; mkdir -p "$OUT/prof"
export VERIF_VARIANT=cov VERIF_OUT="$OUT/out" VERIF_WORK="$OUT/work" LLVM_PROFILE_FILE="$OUT/prof/%p-%m.profraw"
"$V/bin/build.sh" cli-cov shim vh
for c in ${CHECKS:-C01 C02 C03 C04 C05 C06 C07 C08 C09 C10 C11 C12 C13 C14 C15 C18 C20}; do
  "$V/check" $c --tier quick | tail -1
done
TOOLS="$(rustc +nightly --print sysroot)/lib/rustlib/x86_64-unknown-linux-gnu/bin"
"$TOOLS/llvm-profdata" merge -sparse "$OUT"/prof/*.profraw -o "$OUT/merged.profdata"
"$TOOLS/llvm-cov" report "$V/target/cli-cov/release/copia" -instr-profile="$OUT/merged.profdata" --ignore-filename-regex='(\.cargo|rustc|generated_contracts|trace_output)' 2>/dev/null | tee "$OUT/report.txt" | awk 'NR<3 || /src\// || /TOTAL/' | cut -c1-200
