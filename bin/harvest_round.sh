#!/bin/bash
# usage: harvest_round.sh <worktree> <property> <name> [extra checks...]
# Rebases the sub-agent's uncommitted change onto /repo's current HEAD (a fix: commit may have landed since the
# worktree was made), then confirms and files it (harvest_seed.py). Log: /tmp/harvest-<name>.log
wt=$1; prop=$2; name=$3; shift 3
{
cd "$wt" || exit 2
git diff -- src Cargo.toml > /tmp/rebase-$name.diff
head=$(git -C /repo rev-parse HEAD)
if [ "$(git rev-parse HEAD)" != "$head" ]; then
  git apply -R /tmp/rebase-$name.diff && git checkout -q --detach "$head" && git apply --3way /tmp/rebase-$name.diff && git reset -q || { echo "REBASE FAILED"; exit 3; }
fi
git status --short | head
python3 /verif/bin/harvest_seed.py "$wt" "$prop" "$name" "$@"
} > /tmp/harvest-$name.log 2>&1
tail -1 /tmp/harvest-$name.log
