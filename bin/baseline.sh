#!/bin/bash
# Runs the repository's own test suite with the hook guard OFF (there are no hook commits)
# and checks that every test of the pinned stable baseline passes.
cd "${VERIF_REPO:-/repo}" || exit 2
export CARGO_NET_OFFLINE=true
out=$(mktemp)
cargo test --workspace --no-fail-fast --offline 2>&1 | grep -E "^test .* \.\.\. (ok|FAILED|ignored)" | sort -u > "$out"
python3 - "$out" <<'PY'
import json, sys
lines = [l.split() for l in open(sys.argv[1])]
ok = {l[1] for l in lines if l[-1] == "ok"}
failed = {l[1] for l in lines if l[-1] == "FAILED"}
base = json.load(open("/root/.vp/BASELINE.json"))["stable_pass"]
missing = []
for n in base:
    rest = n.split("::", 1)[1]
    cands = {rest, rest.split("::", 1)[1] if "::" in rest else rest}
    if not (cands & ok):
        missing.append(n)
print("baseline tests: %d, passing now: %d, not passing: %d; total ok lines %d, FAILED lines %d" % (len(base), len(base) - len(missing), len(missing), len(ok), len(failed)))
for m in missing[:20]:
    print("  NOT PASSING:", m)
sys.exit(1 if missing else 0)
PY
rc=$?
rm -f "$out"
exit $rc
