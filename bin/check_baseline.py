#!/usr/bin/env python3
"""Runs the repository's own tests in the current directory (a worktree) and compares with the pinned baseline."""
import json, os, subprocess, sys
env = dict(os.environ, CARGO_NET_OFFLINE="true", CARGO_TARGET_DIR=os.path.join(os.getcwd(), "target"))
r = subprocess.run("cargo test --workspace --no-fail-fast --offline -j 6 -- --test-threads 4 2>&1", shell=True, capture_output=True, text=True, env=env)
ok = set(); failed = set()
for l in r.stdout.splitlines():
    w = l.split()
    if len(w) >= 4 and w[0] == "test" and w[-2] == "...":
        (ok if w[-1] == "ok" else failed if w[-1] == "FAILED" else set()).add(w[1])
base = json.load(open("/root/.vp/BASELINE.json"))["stable_pass"]
missing = []
for n in base:
    rest = n.split("::", 1)[1]
    cands = {rest, rest.split("::", 1)[1] if "::" in rest else rest}
    if not (cands & ok):
        missing.append(n)
print("baseline %d, passing %d, NOT passing %d" % (len(base), len(base) - len(missing), len(missing)))
for m in missing[:10]:
    print("  NOT PASSING:", m)
sys.exit(1 if missing else 0)
