#!/usr/bin/env python3
"""usage: bin/seed_round.py <round-number> [ids...]
Prepares a round of seeded changes: for every property a scratch worktree /tmp/w<round>-<ID> of /repo's HEAD
and a prompt file /tmp/w<round>-prompts/<ID>.txt for a sub-agent. The prompt holds the property text, the
one-line names of the earlier changes for that property (so that the new one is different) and the round's
directions - nothing else from /verif."""
import json
import os
import subprocess
import sys

V = os.path.dirname(os.path.dirname(os.path.abspath(__file__)))
rnd = sys.argv[1]
only = sys.argv[2:]
props = [json.loads(l) for l in open(V + "/properties.jsonl")]
DIRECTIONS = open(V + "/bin/seed_round_directions.txt").read() if os.path.exists(V + "/bin/seed_round_directions.txt") else ""
os.makedirs("/tmp/w%s-prompts" % rnd, exist_ok=True)
for p in props:
    pid = p["id"]
    if only and pid not in only:
        continue
    wt = "/tmp/w%s-%s" % (rnd, pid)
    subprocess.run(["git", "-C", "/repo", "worktree", "remove", "--force", wt], capture_output=True)
    subprocess.run(["git", "-C", "/repo", "worktree", "add", "-q", "--detach", wt, "HEAD"], check=True)
    earlier = []
    for d in sorted(os.listdir(V + "/seeded")):
        mp = "%s/seeded/%s/meta.json" % (V, d)
        if os.path.exists(mp) and json.load(open(mp)).get("property") == pid:
            name = d.split(pid + "-", 1)[-1].replace("-", " ")
            earlier.append(name)
    txt = """You are helping to test a verification suite for the Rust project paiml/copia (a pure-Rust rsync-style delta
engine with a CLI: incremental mirror `sync -r`, 3-way `bisync`, and a content-addressed `serve`/`hub-sync` hub).
Your own scratch git worktree of the repository is %(wt)s - work ONLY there. Never read or touch /repo or /verif
(nothing under /verif may be looked at: your work must be independent of it). There is no network; build with
`CARGO_NET_OFFLINE=true cargo ... --offline` and `CARGO_TARGET_DIR=%(wt)s/target`. The machine is shared with other
jobs: use `-j 4` for cargo builds and keep test threads modest.

THE PROPERTY (%(pid)s - %(title)s):
%(statement)s

Code it is anchored in: %(files)s

YOUR TASK: write ONE realistic change to the source of paiml/copia (under src/, the kind of change a maintainer
could plausibly make: a refactor, an optimisation, a "defensive" fix, a cache, a shortcut, a merged code path) that
BREAKS this property while
  (a) the crate still compiles (`cargo build --release --features cli --offline` and `cargo test --workspace --no-run --offline`),
  (b) the EXISTING test suite, unedited, still passes: `cargo test --workspace --no-fail-fast --offline` (254 tests pass at HEAD;
      all of them must still pass; do not edit, delete or add tests under src/ or tests/),
  (c) the violation needs something SPECIFIC to manifest - a particular interleaving of processes, a crash or fault at a
      particular point, a multi-step sequence of operations, an unusual input or size or name, state left by an earlier run,
      or two cooperating sites that each look fine alone. A change that ordinary use exposes at once is NOT wanted.
The violation must be of the property AS STATED (inside its quantifier), not of something neighbouring.

Earlier rounds already produced these changes for this property - yours must use a DIFFERENT mechanism and, if
possible, a different clause of the property:
%(earlier)s

Directions that earlier rounds neglected (suggestions, not limits):
%(directions)s

DELIVERABLES, all inside %(wt)s/seed/ (create the directory):
  * leave your source change APPLIED and UNCOMMITTED in the worktree (it is collected with `git diff -- src Cargo.toml`);
    do not commit, do not add new files outside src/ and seed/;
  * seed/demo.sh - `bash seed/demo.sh %(wt)s` builds what it needs from the worktree's CURRENT sources (release CLI and/or a
    small Rust program or test placed under seed/, using CARGO_TARGET_DIR=%(wt)s/target) and demonstrates the property:
    exit 0 and a line starting PASS when the property holds, non-zero exit and a line starting FAIL when it is violated.
    It must FAIL with your change applied and PASS on the unchanged sources (verify both yourself with `git diff -- src Cargo.toml > seed/patch.diff; git apply -R seed/patch.diff`, run, `git apply seed/patch.diff` - do NOT use `git stash`, `git checkout` of branches or `git commit`: the stash and refs are shared with other worktrees),
    be deterministic (or retry internally until it is practically certain), run in under 5 minutes, use only what is installed
    (bash, python3 stdlib, coreutils, cargo), keep its scratch files under a mktemp directory and remove them. If it needs `ssh`,
    put a stand-in script named ssh on a private PATH directory that runs the joined remote command with `bash -c` (that is what sshd does);
  * seed/README.md - what the change is, which clause of the property it breaks, exactly what is needed for it to manifest,
    and why the existing tests do not notice.
Before you finish, confirm (a), (b) and both directions of the demo yourself and say so in the README. Your final message: a
five-line summary (mechanism, trigger, demo result with/without, test-suite result).
""" % {
        "wt": wt, "pid": pid, "title": p.get("title", ""), "statement": p["statement"],
        "files": ", ".join((p.get("anchors") or {}).get("files", [])),
        "earlier": "\n".join("  - " + e for e in earlier) or "  (none)",
        "directions": DIRECTIONS,
    }
    open("/tmp/w%s-prompts/%s.txt" % (rnd, pid), "w").write(txt)
    print(pid, wt, len(earlier), "earlier")
