//! Independent reference implementations, written from the property texts.
//! They share no code with copia.
use std::collections::{BTreeMap, BTreeSet, HashMap};

pub const MOD: u128 = 65521;

/// Exact weak checksum of a window: a = Σ x_i, b = Σ (n-i) x_i (i from 0).
pub fn weak_exact<'a>(w: impl ExactSizeIterator<Item = &'a u8>) -> (u128, u128, u32) {
    let n = w.len() as u128;
    let mut a: u128 = 0;
    let mut b: u128 = 0;
    for (i, &x) in w.enumerate() {
        a += x as u128;
        b += (n - i as u128) * x as u128;
    }
    let d = (((b % MOD) as u32) << 16) | ((a % MOD) as u32);
    (a, b, d)
}

/// Textbook greedy rsync over byte-equal FULL blocks of the basis.
/// Returns (literal bytes, matches found, max consecutive slides before a match).
pub fn greedy_literals(basis: &[u8], source: &[u8], bs: usize) -> (u64, u64, u64) {
    assert!(bs > 0);
    const B: u64 = 0x1000_0000_01B3; // odd multiplier, wrapping arithmetic
    let full = basis.len() / bs;
    let mut table: HashMap<u64, Vec<usize>> = HashMap::new();
    let h = |s: &[u8]| -> u64 {
        let mut v: u64 = 0;
        for &x in s {
            v = v.wrapping_mul(B).wrapping_add(x as u64 + 1);
        }
        v
    };
    for k in 0..full {
        table.entry(h(&basis[k * bs..(k + 1) * bs])).or_default().push(k * bs);
    }
    if source.len() < bs || full == 0 {
        return (source.len() as u64, 0, 0);
    }
    // B^(bs-1)
    let mut top: u64 = 1;
    for _ in 0..bs - 1 {
        top = top.wrapping_mul(B);
    }
    let mut lit: u64 = 0;
    let mut matches: u64 = 0;
    let mut slides: u64 = 0;
    let mut max_slides: u64 = 0;
    let mut pos = 0usize;
    let mut cur = h(&source[..bs]);
    while pos + bs <= source.len() {
        let mut hit = false;
        if let Some(c) = table.get(&cur) {
            let w = &source[pos..pos + bs];
            if c.iter().any(|&o| &basis[o..o + bs] == w) {
                hit = true;
            }
        }
        if hit {
            matches += 1;
            max_slides = max_slides.max(slides);
            slides = 0;
            pos += bs;
            if pos + bs <= source.len() {
                cur = h(&source[pos..pos + bs]);
            }
        } else {
            lit += 1;
            slides += 1;
            if pos + bs < source.len() {
                let out = source[pos] as u64 + 1;
                let inn = source[pos + bs] as u64 + 1;
                cur = cur.wrapping_sub(out.wrapping_mul(top)).wrapping_mul(B).wrapping_add(inn);
            }
            pos += 1;
        }
    }
    lit += (source.len() - pos) as u64;
    (lit, matches, max_slides)
}

// ------------------------------------------------------------------ reconcile table (C18)
#[derive(Clone, Copy, Debug, PartialEq, Eq)]
pub enum RAct {
    Noop,
    AtoB,
    BtoA,
    Converge,
    DeleteA,
    DeleteB,
    ConflictBoth,
    ConflictDelMod,
}
/// Decision as a function of equality only. Values are opaque ids (digest, type) pairs.
pub fn table<T: PartialEq + Copy>(a: Option<T>, b: Option<T>, base: Option<T>) -> RAct {
    match (a, b) {
        (None, None) => RAct::Noop,
        (Some(x), Some(y)) => {
            if x == y {
                // equal on both sides: nothing, or record-only if base differs or is missing
                if base == Some(x) {
                    RAct::Noop
                } else {
                    RAct::Converge
                }
            } else {
                let a_diff = base != Some(x);
                let b_diff = base != Some(y);
                if a_diff && !b_diff {
                    RAct::AtoB
                } else if !a_diff && b_diff {
                    RAct::BtoA
                } else {
                    // both differ from base (or no base) and from each other
                    RAct::ConflictBoth
                }
            }
        }
        (Some(x), None) => match base {
            None => RAct::AtoB,
            Some(z) if z == x => RAct::DeleteA,
            Some(_) => RAct::ConflictDelMod,
        },
        (None, Some(y)) => match base {
            None => RAct::BtoA,
            Some(z) if z == y => RAct::DeleteB,
            Some(_) => RAct::ConflictDelMod,
        },
    }
}
pub fn mirror(r: RAct) -> RAct {
    match r {
        RAct::AtoB => RAct::BtoA,
        RAct::BtoA => RAct::AtoB,
        RAct::DeleteA => RAct::DeleteB,
        RAct::DeleteB => RAct::DeleteA,
        o => o,
    }
}

// ------------------------------------------------------------------ wildcard (C15/C19)
/// `*` any run (incl. empty, incl. '/'), `?` exactly one char, else literal.
pub fn wild(pat: &[char], text: &[char]) -> bool {
    let (n, m) = (pat.len(), text.len());
    // dp[j] = pattern[..i] matches text[..j]
    let mut dp = vec![false; m + 1];
    dp[0] = true;
    for i in 1..=n {
        let mut nd = vec![false; m + 1];
        let pc = pat[i - 1];
        if pc == '*' {
            nd[0] = dp[0];
            for j in 1..=m {
                nd[j] = dp[j] || nd[j - 1];
            }
        } else {
            for j in 1..=m {
                nd[j] = dp[j - 1] && (pc == '?' || pc == text[j - 1]);
            }
        }
        dp = nd;
    }
    dp[m]
}

/// Exclusion rule: slash-free pattern matches any single component; a pattern with
/// '/' matches the whole relative path. Trailing '/' trimmed, empty ignored.
pub fn excluded(rel: &str, pats: &[String]) -> bool {
    let relc: Vec<char> = rel.chars().collect();
    for p in pats {
        let p = p.trim_end_matches('/');
        if p.is_empty() {
            continue;
        }
        let pc: Vec<char> = p.chars().collect();
        if p.contains('/') {
            if wild(&pc, &relc) {
                return true;
            }
        } else {
            for comp in rel.split('/') {
                if comp.is_empty() || comp == "." {
                    continue;
                }
                let cc: Vec<char> = comp.chars().collect();
                if wild(&pc, &cc) {
                    return true;
                }
            }
        }
    }
    false
}

#[derive(Debug, PartialEq, Eq)]
pub struct RefPlan {
    pub transfer: Vec<String>,
    pub skipped: usize,
    pub delete: Vec<String>,
}
/// Set comprehension from the statement of C19.
pub fn ref_plan(src: &BTreeMap<String, (u64, i64)>, dst: &BTreeMap<String, (u64, i64)>, pats: &[String], delete: bool) -> RefPlan {
    let live: BTreeSet<&String> = src.keys().filter(|p| !excluded(p, pats)).collect();
    let mut transfer: Vec<String> = live
        .iter()
        .filter(|p| match dst.get(**p) {
            None => true,
            Some(d) => d.0 != src[**p].0 || d.1 != src[**p].1,
        })
        .map(|p| (*p).clone())
        .collect();
    let skipped = live.len() - transfer.len();
    let mut del: Vec<String> = if delete { dst.keys().filter(|p| !src.contains_key(*p) && !excluded(p, pats)).cloned().collect() } else { vec![] };
    // "sorted order" = the order of the path type (component-wise), which is what
    // a BTreeMap<PathBuf,_> iteration yields; mirror it with a component-wise key.
    let key = |s: &String| -> Vec<String> { s.split('/').map(str::to_string).collect() };
    transfer.sort_by_key(key);
    del.sort_by_key(key);
    RefPlan { transfer, skipped, delete: del }
}

/// `find . -type f -printf '%s\t%T@\t%p\0'` record for one file.
pub fn find_record(rel: &str, size: u64, secs: i64, frac: Option<&str>) -> Vec<u8> {
    let mut v = Vec::new();
    v.extend_from_slice(size.to_string().as_bytes());
    v.push(b'\t');
    v.extend_from_slice(secs.to_string().as_bytes());
    if let Some(f) = frac {
        v.push(b'.');
        v.extend_from_slice(f.as_bytes());
    }
    v.push(b'\t');
    v.extend_from_slice(b"./");
    v.extend_from_slice(rel.as_bytes());
    v.push(0);
    v
}

/// 12-byte header predicate from the statement of C20.
pub struct Hdr {
    pub len: u32,
    pub ty: u8,
    pub ver: u8,
    pub flags: u16,
}
pub fn parse_header(b: &[u8]) -> Option<Hdr> {
    if b.len() < 12 || &b[0..4] != b"COPA" {
        return None;
    }
    let len = u32::from_le_bytes([b[4], b[5], b[6], b[7]]);
    let ty = b[8];
    let ver = b[9];
    if ver != 1 || !(1..=7).contains(&ty) || len > 16 * 1024 * 1024 {
        return None;
    }
    Some(Hdr { len, ty, ver, flags: u16::from_le_bytes([b[10], b[11]]) })
}
