//! vh — in-process harness for the library-level copia properties.
mod c01;
mod c05;
mod c12;
mod c16;
mod c17;
mod c18;
mod c19;
mod c20;
mod engines;
mod gen;
mod refs;
mod util;

#[allow(dead_code, unused_imports, unexpected_cfgs, clippy::all)]
mod bin {
    include!(concat!(env!("OUT_DIR"), "/bin_mods.rs"));
}

#[global_allocator]
static GLOBAL: util::CountingAlloc = util::CountingAlloc;

use std::io::{BufRead, Read, Write};
use std::path::PathBuf;

fn arg(args: &[String], name: &str) -> Option<String> {
    args.iter().position(|a| a == name).and_then(|i| args.get(i + 1).cloned())
}

fn b3_serve() {
    // protocol: one request per line: "F <hex path>" or "B <hex bytes>"; reply: 64 hex or "ERR"
    let stdin = std::io::stdin();
    let mut out = std::io::stdout();
    for line in stdin.lock().lines() {
        let Ok(line) = line else { break };
        let (cmd, rest) = line.split_at(line.len().min(2));
        let bytes = util::unhex(rest.trim());
        let reply = match cmd.trim() {
            "F" => {
                use std::os::unix::ffi::OsStringExt;
                let p = PathBuf::from(std::ffi::OsString::from_vec(bytes));
                match std::fs::File::open(&p) {
                    Ok(mut f) => {
                        let mut h = blake3::Hasher::new();
                        let mut buf = vec![0u8; 1 << 16];
                        loop {
                            match f.read(&mut buf) {
                                Ok(0) => break Some(h.finalize().to_hex().to_string()),
                                Ok(n) => {
                                    h.update(&buf[..n]);
                                }
                                Err(_) => break None,
                            }
                        }
                    }
                    Err(_) => None,
                }
            }
            "B" => Some(blake3::hash(&bytes).to_hex().to_string()),
            _ => None,
        };
        let _ = writeln!(out, "{}", reply.unwrap_or_else(|| "ERR".into()));
        let _ = out.flush();
    }
}

fn main() {
    let args: Vec<String> = std::env::args().collect();
    let cmd = args.get(1).cloned().unwrap_or_default();
    if cmd == "b3-serve" {
        b3_serve();
        return;
    }
    util::install_panic_hook();
    let seed: u64 = arg(&args, "--seed").and_then(|s| s.parse().ok()).unwrap_or(1);
    let thorough = arg(&args, "--tier").as_deref() == Some("thorough");
    let cases: Option<u64> = arg(&args, "--cases").and_then(|s| s.parse().ok());
    let stage = arg(&args, "--stage").unwrap_or_else(|| "all".into());
    let profile = arg(&args, "--profile").unwrap_or_else(|| if cfg!(debug_assertions) { "debug".into() } else { "release".into() });
    let work = PathBuf::from(arg(&args, "--work").unwrap_or_else(|| "/verif/.work/vh".into()));
    let _ = std::fs::create_dir_all(&work);
    if let Some(t) = arg(&args, "--threads").and_then(|s| s.parse::<usize>().ok()) {
        let _ = rayon::ThreadPoolBuilder::new().num_threads(t).build_global();
        util::set_workers(t);
    }
    util::set_tiny(args.iter().any(|a| a == "--tiny"));
    if cmd == "dump-seeds" {
        let dir = PathBuf::from(arg(&args, "--dir").unwrap_or_default());
        match arg(&args, "--kind").as_deref() {
            Some("frame") => c12::dump_seeds(&dir, seed),
            _ => c20::dump_seeds(&dir, seed),
        }
        return;
    }
    let t0 = std::time::Instant::now();
    let rep = match cmd.as_str() {
        "c01" => c01::run(seed, thorough, cases, &work, &stage),
        "c05" => c05::run(seed, thorough, cases, &work, &stage, &profile),
        "c12" => c12::run(seed, thorough, cases),
        "c16" => c16::run(seed, thorough, cases, &work),
        "c17" => c17::run(seed, thorough, cases),
        "c18" => c18::run(seed, thorough, cases),
        "c19" => c19::run(seed, thorough, cases),
        "c20" => c20::run(seed, thorough, cases, &work, &stage),
        "replay-decode" => c20::replay_files(&PathBuf::from(arg(&args, "--dir").unwrap_or_default())),
        "replay-frame" => c12::replay_files(&PathBuf::from(arg(&args, "--dir").unwrap_or_default())),
        other => {
            eprintln!("unknown subcommand {other:?}");
            std::process::exit(2);
        }
    };
    let mut j = rep.to_json();
    j["wall_s"] = serde_json::json!(t0.elapsed().as_secs_f64());
    j["seed"] = serde_json::json!(seed);
    j["profile"] = serde_json::json!(profile);
    j["debug_assertions"] = serde_json::json!(cfg!(debug_assertions));
    println!("{}", serde_json::to_string(&j).unwrap());
}
