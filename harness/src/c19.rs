//! C19 — the one-way planner and its pattern matcher equal their set definitions.
use crate::bin::meta::parse_remote_meta_output;
use crate::bin::plan::{build_plan, glob_match, is_excluded, FileMeta, MetaMap};
use crate::refs::{excluded, find_record, ref_plan, wild};
use crate::util::{guarded, par_cases, Caught, Report, Rng};
use serde_json::json;
use std::collections::BTreeMap;
use std::path::{Path, PathBuf};

const ALPHA: [char; 6] = ['a', 'b', '*', '?', '.', '/'];

fn strings_upto(l: usize) -> Vec<Vec<char>> {
    let mut out: Vec<Vec<char>> = vec![vec![]];
    let mut layer: Vec<Vec<char>> = vec![vec![]];
    for _ in 0..l {
        let mut next = Vec::with_capacity(layer.len() * ALPHA.len());
        for s in &layer {
            for &c in &ALPHA {
                let mut t = s.clone();
                t.push(c);
                next.push(t);
            }
        }
        out.extend(next.iter().cloned());
        layer = next;
    }
    out
}

fn text_class(t: &[char]) -> &'static str {
    let s = t.contains(&'*');
    let q = t.contains(&'?');
    match (s, q) {
        (true, true) => "text*?",
        (true, false) => "text*",
        (false, true) => "text?",
        _ => "plain",
    }
}

fn matcher_exhaustive(lp: usize, lt: usize, rep: &mut Report) {
    use rayon::prelude::*;
    let pats = strings_upto(lp);
    let texts = strings_upto(lt);
    let texts_s: Vec<String> = texts.iter().map(|t| t.iter().collect()).collect();
    let reps: Vec<Report> = pats
        .par_iter()
        .map(|p| {
            let mut r = Report::default();
            let ps: String = p.iter().collect();
            let meta = p.iter().any(|c| *c == '*' || *c == '?');
            for (t, ts) in texts.iter().zip(&texts_s) {
                r.evaluations += 1;
                let want = wild(p, t);
                let got = glob_match(&ps, ts);
                if got != want {
                    r.violation(&format!("C19|glob_match|differs-from-wildcard-definition|{}", text_class(t)), json!({"pattern": ps, "text": ts, "got": got, "want": want}));
                }
                if meta && !t.is_empty() {
                    r.count("matcher_nontrivial_pairs", 1);
                }
            }
            r
        })
        .collect();
    for r in reps {
        rep.merge(r);
    }
    rep.count("matcher_exhaustive_patterns", pats.len() as u64);
    rep.count("matcher_exhaustive_texts", texts.len() as u64);
    rep.distinct.insert(format!("matcher-exhaustive-{lp}/{lt}"));
}

fn rand_str(rng: &mut Rng, maxlen: usize, alpha: &[char]) -> String {
    let n = rng.range(0, maxlen);
    (0..n).map(|_| *rng.pick(alpha)).collect()
}

fn matcher_random(seed: u64, idx: u64, rep: &mut Report) {
    let mut rng = Rng::derive(seed, 19, idx);
    let alpha = ['a', 'b', 'c', '*', '?', '.', '/', '-', ' ', 'é', '日', '[', '\\', '\n'];
    for _ in 0..64 {
        rep.evaluations += 1;
        let p = rand_str(&mut rng, 12, &alpha);
        // bias text toward matching: derive from the pattern
        let t = if rng.chance(1, 2) {
            let mut s = String::new();
            for c in p.chars() {
                match c {
                    '*' => s.push_str(&rand_str(&mut rng, 3, &alpha)),
                    '?' => s.push(*rng.pick(&alpha)),
                    o => s.push(o),
                }
            }
            if rng.chance(1, 5) {
                s.push(*rng.pick(&alpha));
            }
            s
        } else {
            rand_str(&mut rng, 16, &alpha)
        };
        let pc: Vec<char> = p.chars().collect();
        let tc: Vec<char> = t.chars().collect();
        let want = wild(&pc, &tc);
        match guarded(|| glob_match(&p, &t)) {
            Caught::Ok(got) => {
                if got != want {
                    rep.violation(&format!("C19|glob_match|differs-from-wildcard-definition|{}", text_class(&tc)), json!({"pattern": p, "text": t, "got": got, "want": want}));
                }
            }
            Caught::Panicked(m) => rep.violation("C19|glob_match|panic", json!({"pattern": p, "text": t, "panic": m})),
        }
        if want {
            rep.count("matcher_random_matching", 1);
        }
    }
    rep.distinct.insert(format!("matcher-random-{}", idx % 8));
}

fn excl_and_plan(seed: u64, idx: u64, rep: &mut Report) {
    let mut rng = Rng::derive(seed, 191, idx);
    rep.evaluations += 1;
    let comp_alpha = ['a', 'b', '*', '?', '.', '-'];
    let comp = |rng: &mut Rng| -> String {
        loop {
            let s = rand_str(rng, 3, &comp_alpha);
            if !s.is_empty() && s != "." && s != ".." {
                return s;
            }
        }
    };
    // universe of <= 6 paths
    let np = rng.range(1, 6);
    let mut uni: Vec<String> = Vec::new();
    while uni.len() < np {
        let depth = rng.range(1, 3);
        let p: Vec<String> = (0..depth).map(|_| comp(&mut rng)).collect();
        let p = p.join("/");
        // no path may be a prefix directory of another (regular files only)
        if uni.iter().any(|q| q == &p || q.starts_with(&format!("{p}/")) || p.starts_with(&format!("{q}/"))) {
            continue;
        }
        uni.push(p);
    }
    let npat = rng.range(0, 3);
    let mut pats: Vec<String> = Vec::new();
    for _ in 0..npat {
        let base = rng.pick(&uni).clone();
        let mut s: String = match rng.below(7) {
            // a spelling of the whole path that a path library would normalise and a pattern matcher must not
            5 | 6 => {
                let b = base.clone();
                match rng.below(6) {
                    0 => b.replacen('/', "//", 1),
                    1 => b.replacen('/', "/./", 1),
                    2 => format!("{b}/."),
                    3 => format!("./{b}"),
                    4 => format!("{b}//"),
                    _ => format!("{}/../{b}", comp(&mut rng)),
                }
            }
            0 => base.clone(),                                              // whole path
            1 => base.split('/').next().unwrap().to_string(),                // first component
            2 => base.split('/').last().unwrap().to_string(),                // last component
            3 => comp(&mut rng),
            _ => format!("{}/{}", comp(&mut rng), comp(&mut rng)),
        };
        // replace some chars by wildcards
        let keep_literal = rng.chance(1, 2);
        let cs: Vec<char> = s.chars().map(|c| if c != '/' && !keep_literal && rng.chance(1, 4) { if rng.chance(1, 2) { '*' } else { '?' } } else { c }).collect();
        s = cs.into_iter().collect();
        if rng.chance(1, 8) {
            s.push('/');
        }
        if rng.chance(1, 20) {
            s.clear();
        }
        pats.push(s);
    }
    // is_excluded on every path
    for p in &uni {
        let want = excluded(p, &pats);
        let got = is_excluded(Path::new(p), &pats);
        if got != want {
            rep.violation("C19|is_excluded|differs-from-definition", json!({"path": p, "patterns": pats, "got": got, "want": want}));
        }
    }
    // metadata relations
    let mut src: BTreeMap<String, (u64, i64)> = BTreeMap::new();
    let mut dst: BTreeMap<String, (u64, i64)> = BTreeMap::new();
    for p in &uni {
        // mtimes include the first seconds of the epoch: 0 is a time like any other, not "unknown"
        let s = (rng.below(3) * 100, *rng.pick(&[1_700_000_000i64, 1_700_000_000, 0, 0, 1, 4_102_444_800]) + rng.below(3) as i64);
        match rng.below(7) {
            0 => {
                src.insert(p.clone(), s);
            }
            1 => {
                dst.insert(p.clone(), s);
            }
            2 => {
                src.insert(p.clone(), s);
                dst.insert(p.clone(), s);
            }
            3 => {
                src.insert(p.clone(), s);
                dst.insert(p.clone(), (s.0 + 1, s.1));
            }
            4 => {
                src.insert(p.clone(), s);
                dst.insert(p.clone(), (s.0, if rng.chance(1, 3) { 0 } else { s.1 + 1 }));
            }
            5 => {
                src.insert(p.clone(), s);
                dst.insert(p.clone(), (s.0 + 7, (s.1 - 1).max(0)));
            }
            _ => {}
        }
    }
    if rng.chance(1, 5) {
        // what an interrupted delivery leaves behind: `<path>.copia-tmp` on the destination only, its base name in the
        // source (the planner has no special cases for names)
        if let Some(p) = src.keys().next().cloned() {
            let q = format!("{p}.copia-tmp");
            if !src.contains_key(&q) && !uni.iter().any(|u| u.starts_with(&format!("{q}/"))) {
                dst.insert(q, (rng.below(3) * 100, 1_600_000_000));
            }
        }
    }
    let to_meta = |m: &BTreeMap<String, (u64, i64)>| -> MetaMap { m.iter().map(|(k, v)| (PathBuf::from(k), FileMeta { size: v.0, mtime: v.1 })).collect() };
    for del in [false, true] {
        let want = ref_plan(&src, &dst, &pats, del);
        let got = match guarded(|| build_plan(&to_meta(&src), &to_meta(&dst), &pats, del)) {
            Caught::Ok(p) => p,
            Caught::Panicked(m) => {
                rep.violation("C19|build_plan|panic", json!({"panic": m}));
                continue;
            }
        };
        let gt: Vec<String> = got.transfer.iter().map(|p| p.to_string_lossy().into_owned()).collect();
        let gd: Vec<String> = got.delete.iter().map(|p| p.to_string_lossy().into_owned()).collect();
        let ctx = json!({"src": src, "dst": dst, "patterns": pats, "delete": del});
        if gt != want.transfer {
            rep.violation("C19|build_plan|transfer-differs", json!({"ctx": ctx, "got": gt, "want": want.transfer}));
        }
        if got.skipped != want.skipped {
            rep.violation("C19|build_plan|skipped-differs", json!({"ctx": ctx, "got": got.skipped, "want": want.skipped}));
        }
        if gd != want.delete {
            rep.violation("C19|build_plan|delete-differs", json!({"ctx": ctx, "got": gd, "want": want.delete}));
        }
        if !want.transfer.is_empty() && want.skipped > 0 && (!del || !want.delete.is_empty()) {
            rep.count("plans_with_every_outcome", 1);
            rep.distinct.insert(format!("plan|t{}|s{}|d{}|p{}", want.transfer.len().min(3), want.skipped.min(3), want.delete.len().min(3), pats.len()));
        }
        rep.sample(json!({"plan_case": ctx, "transfer": want.transfer, "skipped": want.skipped, "delete": want.delete}), 2);
    }
    rep.count("plan_universes", 1);
}

fn listing(seed: u64, idx: u64, rep: &mut Report) {
    listing_of(seed, idx, false, rep)
}

/// Listings of hundreds to thousands of records (64 KiB .. 1 MiB of text) whose names are mostly 2-, 3- and 4-byte
/// characters: whatever unit the reader works in (a pipe buffer, a 64 KiB window, a line buffer), some character and
/// some record straddles its boundary.
fn big_listing(seed: u64, idx: u64, rep: &mut Report) {
    listing_of(seed, idx, true, rep)
}

fn listing_of(seed: u64, idx: u64, big: bool, rep: &mut Report) {
    let mut rng = Rng::derive(seed, if big { 193 } else { 192 }, idx);
    rep.evaluations += 1;
    let small_alpha = ['a', 'b', '.', '\t', '\n', ' ', 'é', '日', '-', '*', '\\', '\'', '"'];
    let big_alpha = ['é', '日', '€', '\u{1F600}', 'ß', '語', 'a', '\u{10348}', ' ', 'ñ'];
    let alpha: &[char] = if big { &big_alpha } else { &small_alpha };
    let n = if big { rng.range(600, 4000) } else { rng.range(0, 8) };
    let maxlen = if big { *rng.pick(&[5usize, 12, 40, 80]) } else { 5 };
    let mut want: BTreeMap<String, (u64, i64)> = BTreeMap::new();
    let mut raw = Vec::new();
    for _ in 0..n {
        let depth = rng.range(1, 3);
        let comps: Vec<String> = (0..depth)
            .map(|_| loop {
                let s = rand_str(&mut rng, maxlen, alpha);
                if !s.is_empty() && s != "." && s != ".." {
                    break s;
                }
            })
            .collect();
        let p = comps.join("/");
        if want.contains_key(&p) {
            continue;
        }
        let size = match rng.below(4) {
            0 => 0,
            1 => rng.below(5000),
            2 => u64::from(u32::MAX) + rng.below(10),
            _ => rng.next() >> 12,
        };
        let secs = match rng.below(5) {
            0 => 0,
            1 => 1,
            2 => 2_147_483_647 + rng.below(3) as i64,
            3 => 9_999_999_999,
            _ => 1_600_000_000 + rng.below(200_000_000) as i64,
        };
        let frac = match rng.below(4) {
            0 => None,
            1 => Some("0000000000"),
            2 => Some("9999999990"),
            _ => Some("5000000000"),
        };
        raw.extend_from_slice(&find_record(&p, size, secs, frac));
        want.insert(p, (size, secs));
    }
    let got = match guarded(|| parse_remote_meta_output(&raw)) {
        Caught::Ok(m) => m,
        Caught::Panicked(m) => {
            rep.violation("C19|parse_listing|panic", json!({"panic": m}));
            return;
        }
    };
    let gotm: BTreeMap<String, (u64, i64)> = got.iter().map(|(k, v)| (k.to_string_lossy().into_owned(), (v.size, v.mtime))).collect();
    if gotm != want {
        if big {
            let missing: Vec<&String> = want.keys().filter(|k| !gotm.contains_key(*k)).take(3).collect();
            let extra: Vec<&String> = gotm.keys().filter(|k| !want.contains_key(*k)).take(3).collect();
            rep.violation("C19|parse_listing|roundtrip-differs|listing-over-64KiB", json!({"seed": seed, "case": idx, "records": want.len(), "bytes": raw.len(), "missing": missing, "unexpected": extra}));
        } else {
            rep.violation("C19|parse_listing|roundtrip-differs", json!({"want": want, "got": gotm}));
        }
    }
    if big {
        rep.count("listings_over_64KiB", u64::from(raw.len() > 65536));
        rep.count("listing_bytes", raw.len() as u64);
        rep.distinct.insert(format!("listing|big|{}KiB", (raw.len() / 65536) * 64));
    }
    if want.keys().any(|k| k.contains('\t') || k.contains('\n')) {
        rep.count("listings_with_tab_or_newline_names", 1);
        rep.distinct.insert(format!("listing|n{}|tabnl", want.len().min(4)));
    }
    rep.count("listing_records", want.len() as u64);
}

/// Exhaustive planner check for universes of <= 3 fixed paths x 7 metadata relations x delete.
fn plan_exhaustive(rep: &mut Report) {
    let paths = ["a", "d/b", "d.c"];
    let patsets: [Vec<String>; 4] = [vec![], vec!["d".into()], vec!["d/*".into()], vec!["?".into(), "*.c".into()]];
    for pats in &patsets {
        for code in 0..7usize.pow(3) {
            let mut c = code;
            let mut src = BTreeMap::new();
            let mut dst = BTreeMap::new();
            for p in paths {
                let s = (10u64, 1000i64);
                match c % 7 {
                    0 => {}
                    1 => {
                        src.insert(p.to_string(), s);
                    }
                    2 => {
                        dst.insert(p.to_string(), s);
                    }
                    3 => {
                        src.insert(p.to_string(), s);
                        dst.insert(p.to_string(), s);
                    }
                    4 => {
                        src.insert(p.to_string(), s);
                        dst.insert(p.to_string(), (11, 1000));
                    }
                    5 => {
                        src.insert(p.to_string(), s);
                        dst.insert(p.to_string(), (10, 1001));
                    }
                    _ => {
                        src.insert(p.to_string(), s);
                        dst.insert(p.to_string(), (9, 999));
                    }
                }
                c /= 7;
            }
            let to_meta = |m: &BTreeMap<String, (u64, i64)>| -> MetaMap { m.iter().map(|(k, v)| (PathBuf::from(k), FileMeta { size: v.0, mtime: v.1 })).collect() };
            for del in [false, true] {
                rep.evaluations += 1;
                let want = ref_plan(&src, &dst, pats, del);
                let got = build_plan(&to_meta(&src), &to_meta(&dst), pats, del);
                let gt: Vec<String> = got.transfer.iter().map(|p| p.to_string_lossy().into_owned()).collect();
                let gd: Vec<String> = got.delete.iter().map(|p| p.to_string_lossy().into_owned()).collect();
                if gt != want.transfer || gd != want.delete || got.skipped != want.skipped {
                    rep.violation("C19|build_plan|exhaustive-differs", json!({"src": src, "dst": dst, "patterns": pats, "delete": del, "got": [json!(gt), json!(got.skipped), json!(gd)], "want": [json!(want.transfer), json!(want.skipped), json!(want.delete)]}));
                }
            }
        }
    }
    rep.count("plan_exhaustive_states", 4 * 343 * 2);
}

pub fn run(seed: u64, thorough: bool, cases: Option<u64>) -> Report {
    let mut rep = Report::default();
    if crate::util::tiny() {
        matcher_exhaustive(2, 2, &mut rep);
        let n = cases.unwrap_or(2);
        rep.merge(par_cases(n, |i, r| excl_and_plan(seed, i, r)));
        rep.merge(par_cases(n, |i, r| listing(seed, i, r)));
        return rep;
    }
    if thorough {
        matcher_exhaustive(5, 6, &mut rep);
    } else {
        matcher_exhaustive(4, 5, &mut rep);
    }
    plan_exhaustive(&mut rep);
    let n = cases.unwrap_or(if thorough { 400_000 } else { 40_000 });
    rep.merge(par_cases(n, |i, r| matcher_random(seed, i, r)));
    rep.merge(par_cases(n * 2, |i, r| excl_and_plan(seed, i, r)));
    rep.merge(par_cases(n, |i, r| listing(seed, i, r)));
    rep.merge(par_cases(if thorough { 600 } else { 60 }, |i, r| big_listing(seed, i, r)));
    rep
}
