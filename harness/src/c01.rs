//! C01 — delta round-trip reconstructs the source byte-for-byte (library + CLI stage).
use crate::engines::*;
use crate::gen::{gen_case, size_class, Case, CLI_BS};
use crate::util::{brief, par_cases, Caught, Report, Rng};
use copia::{BlockSignature, Delta, DeltaOp, Signature};
use serde_json::json;

fn unwrap_r<T>(r: R<T>, what: &str, sigp: &str, ctx: &serde_json::Value, rep: &mut Report) -> Option<T> {
    match r {
        Caught::Ok(Ok(v)) => Some(v),
        Caught::Ok(Err(e)) => {
            rep.violation(&format!("C01|{sigp}|{what}-error"), json!({"ctx": ctx, "err": e.to_string()}));
            None
        }
        Caught::Panicked(m) => {
            rep.violation(&format!("C01|{sigp}|{what}-panic"), json!({"ctx": ctx, "panic": m}));
            None
        }
    }
}

fn check_delta_meta(d: &Delta, basis: &[u8], source: &[u8], eng: &str, ctx: &serde_json::Value, rep: &mut Report) {
    if d.source_size != source.len() as u64 {
        rep.violation(&format!("C01|{eng}|source_size"), json!({"ctx": ctx, "got": d.source_size}));
    }
    if d.checksum.as_bytes() != blake3::hash(source).as_bytes() {
        rep.violation(&format!("C01|{eng}|checksum"), json!({"ctx": ctx}));
    }
    let mut sum: u128 = 0;
    for op in &d.ops {
        match op {
            DeltaOp::Copy { offset, len } => {
                sum += u128::from(*len);
                if u128::from(*offset) + u128::from(*len) > basis.len() as u128 {
                    rep.violation(&format!("C01|{eng}|copy-outside-basis"), json!({"ctx": ctx, "offset": offset, "len": len}));
                }
            }
            DeltaOp::Literal(v) => sum += v.len() as u128,
        }
    }
    if sum != source.len() as u128 {
        rep.violation(&format!("C01|{eng}|lengths-sum"), json!({"ctx": ctx, "sum": sum.to_string()}));
    }
}

fn check_patch(po: PatchOut, basis: &[u8], source: &[u8], d: &Delta, eng: &str, ctx: &serde_json::Value, rep: &mut Report) {
    match po.res {
        Caught::Ok(Ok(())) => {
            if po.out != source {
                rep.violation(&format!("C01|{eng}|patch-output-differs"), json!({"ctx": ctx, "out": brief(&po.out)}));
            }
        }
        Caught::Ok(Err(e)) => rep.violation(&format!("C01|{eng}|patch-error"), json!({"ctx": ctx, "err": e.to_string()})),
        Caught::Panicked(m) => rep.violation(&format!("C01|{eng}|patch-panic"), json!({"ctx": ctx, "panic": m})),
    }
    // every byte the engine got from the basis lies inside a copy range
    let mut allowed: Vec<(u64, u64)> = d
        .ops
        .iter()
        .filter_map(|op| if let DeltaOp::Copy { offset, len } = op { Some((*offset, offset + u64::from(*len))) } else { None })
        .collect();
    allowed.sort_unstable();
    for (pos, _want, got) in &po.reads {
        if *got == 0 {
            continue;
        }
        let (lo, hi) = (*pos, *pos + *got as u64);
        if hi > basis.len() as u64 || !allowed.iter().any(|(a, b)| lo >= *a && hi <= *b) {
            rep.violation(&format!("C01|{eng}|basis-read-outside-copy"), json!({"ctx": ctx, "read": [lo, hi]}));
            break;
        }
    }
}

pub fn lib_case(c: &Case, ctx: &serde_json::Value, rep: &mut Report, valid_bs: bool) {
    let (basis, source, bs) = (&c.basis, &c.source, c.bs);
    // 1. signatures
    let Some(sig) = unwrap_r(sig_generate(basis, bs), "signature", "generate", ctx, rep) else { return };
    if valid_bs {
        if let Some(s2) = unwrap_r(sig_sync_trait(basis, bs), "signature", "sync", ctx, rep) {
            if s2 != sig {
                rep.violation("C01|sync|signature-differs-from-generate", json!({"ctx": ctx}));
            }
        }
        if let Some(s3) = unwrap_r(sig_async(basis, bs), "signature", "async", ctx, rep) {
            if s3 != sig {
                rep.violation("C01|async|signature-differs", json!({"ctx": ctx}));
            }
        }
    }
    // sequential map must equal whatever path generate() took (rayon for > 64 KiB)
    let seq: Vec<BlockSignature> = basis.chunks(bs).enumerate().map(|(i, ch)| BlockSignature::compute(i as u32, ch)).collect();
    let seq_sig = Signature { block_size: bs, file_size: basis.len() as u64, blocks: seq };
    if seq_sig != sig {
        rep.violation("C01|generate|parallel-vs-sequential-signature", json!({"ctx": ctx}));
    }
    if basis.len() > 64 * 1024 {
        rep.count("rayon_path_cases", 1);
    }
    // independent strong hash of every block
    for (i, ch) in basis.chunks(bs).enumerate() {
        if sig.blocks.get(i).map(|b| b.strong_hash.as_bytes()) != Some(blake3::hash(ch).as_bytes()) {
            rep.violation("C01|generate|block-strong-hash", json!({"ctx": ctx, "block": i}));
            break;
        }
    }
    if sig.file_size != basis.len() as u64 || sig.blocks.len() != basis.len().div_ceil(bs) {
        rep.violation("C01|generate|signature-shape", json!({"ctx": ctx}));
    }
    // 2. deltas
    let ds = unwrap_r(delta_sync(source, &sig), "delta", "sync", ctx, rep);
    let da = unwrap_r(delta_async(source, &sig), "delta", "async", ctx, rep);
    if let (Some(a), Some(b)) = (&ds, &da) {
        if a != b {
            rep.violation("C01|engines|delta-differs", json!({"ctx": ctx}));
        }
    }
    for (eng, d) in [("sync", &ds), ("async", &da)] {
        let Some(d) = d else { continue };
        check_delta_meta(d, basis, source, eng, ctx, rep);
        // 4. patch through both engines
        check_patch(patch_sync(basis, d), basis, source, d, &format!("{eng}-delta/sync-patch"), ctx, rep);
        check_patch(patch_async(basis, d), basis, source, d, &format!("{eng}-delta/async-patch"), ctx, rep);
    }
    if let Some(d) = &ds {
        let nc = d.ops.iter().filter(|o| o.is_copy()).count();
        let nl = d.ops.iter().filter(|o| o.is_literal()).count();
        if nc > 0 {
            rep.count("cases_with_copy", 1);
        }
        if nl > 0 {
            rep.count("cases_with_literal", 1);
        }
        if nc > 0 && nl > 0 {
            rep.distinct.insert(format!("bs{bs}|{}|{}|{}", c.meta.edit_shape, size_class(basis.len(), bs), if valid_bs { "v" } else { "odd" }));
        }
        if c.meta.has_twin {
            rep.count("cases_with_weak_twin", 1);
        }
        if c.meta.has_repeat {
            rep.count("cases_with_repeated_block", 1);
        }
        if c.meta.junk_prefix >= 5000 && nc > 0 {
            rep.count("cases_match_after_5000_slides", 1);
        }
    }
}

fn lib_one(seed: u64, idx: u64, thorough: bool, rep: &mut Report) {
    let mut rng = Rng::derive(seed, 1, idx);
    rep.evaluations += 1;
    let odd = crate::util::tiny() || rng.chance(1, 6);
    let bs = if crate::util::tiny() {
        *rng.pick(&[1usize, 3, 4, 8, 16, 32])
    } else if odd {
        *rng.pick(&[1usize, 2, 3, 7, 100, 511, 513, 1000, 4097, 65535, 65537, 0])
    } else {
        *rng.pick(&CLI_BS)
    };
    let bs = if bs == 0 { rng.range(1, 70000) } else { bs };
    let big = !crate::util::tiny() && rng.chance(1, if thorough { 10 } else { 25 });
    let max_total = if crate::util::tiny() {
        160
    } else if big { 2 * 1024 * 1024 } else if bs >= 16384 { 6 * bs } else { 64 * 1024 };
    let mut c = gen_case(&mut rng, bs, max_total);
    if big && c.basis.len() <= 64 * 1024 && !c.basis.is_empty() {
        // force the rayon path
        let unit = c.basis.clone();
        while c.basis.len() <= 64 * 1024 {
            c.basis.extend_from_slice(&unit);
        }
        c.source = crate::gen::edit(&mut rng, &c.basis, bs, &mut c.meta);
    }
    let ctx = json!({"seed": seed, "case": idx, "bs": bs, "basis": brief(&c.basis), "source": brief(&c.source), "edit": c.meta.edit_shape});
    rep.count(&format!("cases_bs_{}", if odd { "odd".to_string() } else { bs.to_string() }), 1);
    lib_case(&c, &ctx, rep, !odd);
    rep.sample(ctx, 3);
}

// ------------------------------------------------------------------ CLI stage
use std::path::Path;
use std::process::Command;

pub fn copia_bin() -> String {
    std::env::var("COPIA_BIN").unwrap_or_else(|_| "/verif/target/cli/release/copia".into())
}
pub struct Run {
    pub code: Option<i32>,
    pub signal: Option<i32>,
    pub stdout: String,
    pub stderr: String,
    /// the watchdog fired (the child was killed by the harness: neither an exit code nor a signal of its own)
    pub timed_out: bool,
    /// ... and at that moment it was issuing system calls without moving a byte
    pub spinning: bool,
}
pub fn valgrind() -> bool {
    std::env::var("VH_VALGRIND").map(|v| v == "1").unwrap_or(false)
}
/// copia, or copia under valgrind memcheck (exit status 97 = memcheck reported an error).
pub fn copia_command() -> Command {
    if valgrind() {
        let mut c = Command::new("valgrind");
        c.args(["-q", "--error-exitcode=97", "--errors-for-leak-kinds=none", "--leak-check=no", "--trace-children=no"]).arg(copia_bin());
        c
    } else {
        Command::new(copia_bin())
    }
}
pub fn run_copia(args: &[&str], cwd: &Path) -> Run {
    use std::os::unix::process::ExitStatusExt;
    use std::process::Stdio;
    // output goes to files of its own (no pipe to drain while the watchdog polls)
    static N: std::sync::atomic::AtomicU64 = std::sync::atomic::AtomicU64::new(0);
    let n = N.fetch_add(1, std::sync::atomic::Ordering::Relaxed);
    let (po, pe) = (cwd.join(format!(".vh-stdout-{n}")), cwd.join(format!(".vh-stderr-{n}")));
    let (fo, fe) = (std::fs::File::create(&po).expect("scratch file"), std::fs::File::create(&pe).expect("scratch file"));
    let mut child = copia_command().args(args).current_dir(cwd).env("RUST_LOG", "off").stdin(Stdio::null()).stdout(Stdio::from(fo)).stderr(Stdio::from(fe)).spawn().expect("spawn copia");
    let (status, timed_out, spinning) = crate::util::wait_watchdog(&mut child, crate::util::watchdog_secs(if valgrind() { 900 } else { 180 }));
    if spinning {
        crate::util::HANG_SEEN.store(true, std::sync::atomic::Ordering::Relaxed);
    }
    let rd = |p: &Path| -> String { let s = std::fs::read(p).map(|b| String::from_utf8_lossy(&b[..b.len().min(1 << 20)]).into_owned()).unwrap_or_default(); let _ = std::fs::remove_file(p); s };
    Run { code: status.and_then(|s| s.code()), signal: status.and_then(|s| s.signal()), stdout: rd(&po), stderr: rd(&pe), timed_out, spinning }
}

/// ONE engine object used for a series of delta calls against different signatures (v1, then v2 = v1 with a block
/// replaced by a weak-checksum twin, then v1 again ...): whatever an engine keeps from one call to the next must not
/// change the result; every delta must equal the one a fresh engine computes and must patch to its source.
fn engine_reuse(seed: u64, idx: u64, rep: &mut Report) {
    use copia::{CopiaSync, Sync};
    use std::io::Cursor;
    let mut rng = Rng::derive(seed, 111, idx);
    rep.evaluations += 1;
    let bs = *rng.pick(&[512usize, 1024, 2048, 4096]);
    let nb = rng.range(2, 6);
    let v1 = rng.bytes(nb * bs);
    let k = rng.range(0, nb - 1);
    let Some(twin) = crate::gen::weak_twin(&mut rng, &v1[k * bs..(k + 1) * bs]) else { return };
    let mut v2 = v1.clone();
    v2[k * bs..(k + 1) * bs].copy_from_slice(&twin);
    let mut v3 = v1.clone();
    v3.extend_from_slice(&rng.bytes(300));
    let versions = [&v1, &v2, &v3];
    let engine = CopiaSync::with_block_size(bs);
    let ctx = json!({"seed": seed, "case": idx, "family": "engine-reuse", "bs": bs, "blocks": nb, "twin_block": k});
    for step in 0..rng.range(3, 7) {
        let basis = versions[rng.below(3) as usize];
        let source = versions[rng.below(3) as usize];
        let r = crate::util::guarded(|| {
            let sig = engine.signature(Cursor::new(basis.as_slice()))?;
            let d = engine.delta(Cursor::new(source.as_slice()), &sig)?;
            let fresh = CopiaSync::with_block_size(bs).delta(Cursor::new(source.as_slice()), &sig)?;
            let mut out = Vec::new();
            let pr = engine.patch(&mut Cursor::new(basis.as_slice()), &d, &mut out);
            Ok::<_, copia::CopiaError>((d == fresh, pr.is_ok(), out == **source))
        });
        rep.count("engine_reuse_steps", 1);
        match r {
            Caught::Ok(Ok((same, ok, eq))) => {
                if !same {
                    rep.violation("C01|engine-reuse|delta-differs-from-a-fresh-engine's", json!({"ctx": ctx, "step": step}));
                }
                if !ok || !eq {
                    rep.violation("C01|engine-reuse|patch-failed-or-output-differs", json!({"ctx": ctx, "step": step, "patch_ok": ok, "output_equals_source": eq}));
                }
            }
            Caught::Ok(Err(e)) => rep.violation("C01|engine-reuse|error", json!({"ctx": ctx, "step": step, "err": e.to_string()})),
            Caught::Panicked(m) => rep.violation("C01|engine-reuse|panic", json!({"ctx": ctx, "step": step, "panic": m})),
        }
    }
    rep.distinct.insert(format!("engine-reuse|bs{bs}|nb{nb}"));
}

/// The same command with the LD_PRELOAD shim killing it (SIGKILL) before its k-th file-system-mutating call.
/// None when the shim is not available (or under valgrind, which has its own preload).
pub fn run_copia_killed(args: &[&str], cwd: &Path, k: u64) -> Option<Run> {
    use std::os::unix::process::ExitStatusExt;
    let shim = std::env::var("VH_SHIM").ok()?;
    if valgrind() || !Path::new(&shim).exists() {
        return None;
    }
    let o = Command::new(copia_bin()).args(args).current_dir(cwd).env("RUST_LOG", "off").env("LD_PRELOAD", shim).env("FSMON_MATCH", "copia").env("FSMON_KILL_AT", k.to_string()).env("FSMON_KILL_CLASS", "mutating").output().ok()?;
    Some(Run { code: o.status.code(), signal: o.status.signal(), stdout: String::from_utf8_lossy(&o.stdout).into(), stderr: String::from_utf8_lossy(&o.stderr).into(), timed_out: false, spinning: false })
}

fn cli_one(seed: u64, idx: u64, work: &Path, rep: &mut Report) {
    let mut rng = Rng::derive(seed, 2, idx);
    rep.evaluations += 1;
    let bs = *rng.pick(&CLI_BS);
    let mut c = gen_case(&mut rng, bs, if bs >= 16384 { 5 * bs } else { 48 * 1024 });
    if idx % 10 == 3 {
        // block-level rearrangements of a tail-free basis: same length, zero literal bytes, different content
        let nb = rng.range(2, 6);
        let blocks: Vec<Vec<u8>> = (0..nb).map(|i| { let mut b = rng.bytes(bs); b[0] = i as u8; b }).collect();
        c.basis = blocks.concat();
        let mut order: Vec<usize> = (0..nb).collect();
        match rng.below(3) {
            0 => order.swap(0, nb - 1),
            1 => order[nb - 1] = order[0],
            _ => order.rotate_left(1),
        }
        c.source = order.iter().flat_map(|&i| blocks[i].clone()).collect();
        c.meta.edit_shape = "block-rearrangement".into();
        rep.count("cli_cases_block_rearrangement", 1);
    }
    if idx % 50 == 7 {
        // a literal run of several MiB: the async engine then writes more than one buffer-full per op
        let n = rng.range(2 * 1024 * 1024 + 1, 5 * 1024 * 1024);
        let at = rng.range(0, c.source.len());
        let big = rng.bytes(n);
        c.source.splice(at..at, big);
        c.meta.edit_shape.push_str("+bigliteral");
        rep.count("cli_cases_with_literal_over_2MiB", 1);
    }
    let dir = work.join(format!("c{idx}"));
    let _ = std::fs::remove_dir_all(&dir);
    std::fs::create_dir_all(&dir).unwrap();
    let ctx = json!({"seed": seed, "cli_case": idx, "bs": bs, "basis": brief(&c.basis), "source": brief(&c.source), "edit": c.meta.edit_shape});
    std::fs::write(dir.join("basis"), &c.basis).unwrap();
    std::fs::write(dir.join("source"), &c.source).unwrap();
    let bss = bs.to_string();
    let fail = |rep: &mut Report, what: &str, r: &Run, ctx: &serde_json::Value| {
        if r.timed_out && !r.spinning {
            rep.inconclusive += 1;
            rep.count("cli_watchdog_expired_without_spin_evidence", 1);
            return;
        }
        let hang = format!("{what}-hang-spinning-without-progress");
        let what = if r.spinning { hang.as_str() } else if r.code == Some(97) && valgrind() { "valgrind-memcheck-error" } else { what };
        rep.violation(&format!("C01|cli|{what}"), json!({"ctx": ctx, "code": r.code, "signal": r.signal, "stderr": r.stderr.chars().take(300).collect::<String>()}));
    };
    // chain
    let r1 = run_copia(&["signature", "basis", "-o", "b.sig", "-b", &bss], &dir);
    if r1.code != Some(0) {
        fail(rep, "signature-failed", &r1, &ctx);
    } else {
        let r2 = run_copia(&["delta", "source", "b.sig", "-o", "s.delta"], &dir);
        if r2.code != Some(0) {
            fail(rep, "delta-failed", &r2, &ctx);
        } else {
            let r3 = run_copia(&["patch", "basis", "s.delta", "-o", "out"], &dir);
            if r3.code != Some(0) {
                fail(rep, "patch-failed", &r3, &ctx);
            } else if std::fs::read(dir.join("out")).ok().as_deref() != Some(&c.source[..]) {
                rep.violation("C01|cli|chain-output-differs", json!({"ctx": ctx}));
            }
            // files decode to the library's values
            let sig_lib = Signature::generate(&mut std::io::Cursor::new(&c.basis), bs).ok();
            let sig_file: Option<Signature> = std::fs::read(dir.join("b.sig")).ok().and_then(|b| bincode::deserialize(&b).ok());
            if sig_lib.is_none() || sig_file != sig_lib {
                rep.violation("C01|cli|sig-file-differs-from-library", json!({"ctx": ctx}));
            }
            if let Some(sl) = &sig_lib {
                if let Caught::Ok(Ok(dl)) = delta_sync(&c.source, sl) {
                    let df: Option<Delta> = std::fs::read(dir.join("s.delta")).ok().and_then(|b| bincode::deserialize(&b).ok());
                    if df.as_ref() != Some(&dl) {
                        rep.violation("C01|cli|delta-file-differs-from-library", json!({"ctx": ctx}));
                    }
                    let nc = dl.ops.iter().filter(|o| o.is_copy()).count();
                    let nl = dl.ops.iter().filter(|o| o.is_literal()).count();
                    if nc > 0 && nl > 0 {
                        rep.distinct.insert(format!("cli|bs{bs}|{}|{}", c.meta.edit_shape, size_class(c.basis.len(), bs)));
                    }
                }
            }
        }
    }
    // single-file sync with DST in {absent, identical, basis}
    for (k, dstinit) in [("absent", None), ("identical", Some(&c.source)), ("basis", Some(&c.basis))] {
        let dst = dir.join(format!("dst_{k}"));
        if let Some(b) = dstinit {
            std::fs::write(&dst, b).unwrap();
        }
        let r = run_copia(&["sync", "source", dst.to_str().unwrap(), "-b", &bss], &dir);
        rep.count("cli_single_sync_runs", 1);
        if r.code != Some(0) {
            fail(rep, &format!("sync-{k}-failed"), &r, &ctx);
        } else if std::fs::read(&dst).ok().as_deref() != Some(&c.source[..]) {
            rep.violation(&format!("C01|cli|sync-{k}-dst-differs"), json!({"ctx": ctx}));
        }
        if std::fs::read(dir.join("source")).ok().as_deref() != Some(&c.source[..]) {
            rep.violation("C01|cli|sync-modified-source", json!({"ctx": ctx}));
        }
    }
    // ... and with DST's neighbourhood as an interrupted earlier sync of a LONGER version left it: whatever
    // temporary state that run created must not leak into this one
    if idx % 2 == 0 {
        let dst = dir.join("dst_after_killed_sync");
        std::fs::write(&dst, &c.basis).unwrap();
        let mut longer = c.source.clone();
        let extra_len = rng.range(1, 200_000);
        longer.extend_from_slice(&rng.bytes(extra_len));
        std::fs::write(dir.join("source_longer"), &longer).unwrap();
        let k = rng.range(1, 7) as u64;
        if let Some(rk) = run_copia_killed(&["sync", "source_longer", dst.to_str().unwrap(), "-b", &bss], &dir, k) {
            rep.count(if rk.signal == Some(9) { "cli_single_sync_killed_runs" } else { "cli_single_sync_kill_point_beyond_end" }, 1);
            if !dst.exists() {
                std::fs::write(&dst, &c.basis).unwrap();
            }
            let r = run_copia(&["sync", "source", dst.to_str().unwrap(), "-b", &bss], &dir);
            if r.code != Some(0) {
                fail(rep, "sync-after-killed-sync-failed", &r, &ctx);
            } else if std::fs::read(&dst).ok().as_deref() != Some(&c.source[..]) {
                rep.violation("C01|cli|sync-after-killed-sync-dst-differs", json!({"ctx": ctx, "killed_before_mutating_call": k}));
            }
        }
    }
    rep.count("cli_chains", 1);
    let _ = std::fs::remove_dir_all(&dir);
}

pub fn run(seed: u64, thorough: bool, cases: Option<u64>, work: &Path, stage: &str) -> Report {
    let mut rep = Report::default();
    if stage == "lib" || stage == "all" {
        let n = cases.unwrap_or(if thorough { 40_000 } else { 1500 });
        rep.merge(par_cases(n, |i, r| lib_one(seed, i, thorough, r)));
        if !crate::util::tiny() {
            rep.merge(par_cases(n / 10, |i, r| engine_reuse(seed, i, r)));
        }
    }
    if stage == "cli" || stage == "all" {
        let n = if thorough { 3000 } else { 200 };
        let n = cases.map_or(n, |c| c.min(n));
        rep.merge(par_cases(n, |i, r| cli_one(seed, i, work, r)));
    }
    rep
}
