//! C17 — rolling checksums equal their definition after any operations.
use crate::refs::{weak_exact, MOD};
use crate::util::{guarded, par_cases, Caught, Report, Rng};
use copia::{FastRollingChecksum, RollingChecksum};
use serde_json::json;
use std::collections::VecDeque;

#[derive(Clone, Copy, Debug)]
enum Dist {
    Zero,
    FF,
    Alt,
    Uniform,
    Ramp,
    High,
    Low,
}
const DISTS: [Dist; 7] = [Dist::Zero, Dist::FF, Dist::Alt, Dist::Uniform, Dist::Ramp, Dist::High, Dist::Low];

fn draw(rng: &mut Rng, d: Dist, i: usize) -> u8 {
    match d {
        Dist::Zero => 0,
        Dist::FF => 0xFF,
        Dist::Alt => {
            if i % 2 == 0 {
                0
            } else {
                255
            }
        }
        Dist::Uniform => rng.byte(),
        Dist::Ramp => i as u8,
        Dist::High => 0xF0 | (rng.byte() & 0x0F),
        Dist::Low => rng.byte() & 0x03,
    }
}

struct State {
    win: VecDeque<u8>,
    slow: RollingChecksum,
    fast: FastRollingChecksum,
    /// exact sums, maintained incrementally in u128 and re-derived from the
    /// window by the O(n) definition at every `fresh` point (harness self-check)
    a: u128,
    b: u128,
}
impl State {
    fn new(init: &[u8]) -> Self {
        let (a, b, _) = weak_exact(init.iter());
        State { win: init.iter().copied().collect(), slow: RollingChecksum::new(init), fast: FastRollingChecksum::new(init), a, b }
    }
    fn push(&mut self, x: u8) {
        self.win.push_back(x);
        self.a += u128::from(x);
        self.b += self.a;
        self.slow.push(x);
        self.fast.push(x);
    }
    fn roll(&mut self, x: u8) -> u8 {
        let n = self.win.len() as u128;
        let old = self.win.pop_front().unwrap();
        self.win.push_back(x);
        self.a = self.a - u128::from(old) + u128::from(x);
        self.b = self.b - n * u128::from(old) + self.a;
        self.slow.roll(old, x);
        self.fast.roll(old, x);
        old
    }
}

/// Check every clause after one operation. Returns the violated clause names.
fn check(st: &State, recheck_fresh: bool, rep: &mut Report, ctx: &dyn Fn() -> serde_json::Value) {
    let (a, b) = (st.a, st.b);
    let d = (((b % MOD) as u32) << 16) | ((a % MOD) as u32);
    let n = st.win.len();
    if recheck_fresh {
        let (a2, b2, d2) = weak_exact(st.win.iter());
        assert!(a2 == a && b2 == b && d2 == d, "harness: incremental exact sums diverged from the definition");
    }
    rep.count("ops_checked", 1);
    if a >= MOD {
        rep.count("states_a_ge_mod", 1);
    }
    if b >= MOD {
        rep.count("states_b_ge_mod", 1);
    }
    if b >= (1u128 << 24) {
        rep.count("states_b_ge_2^24", 1);
    }
    if b >= (1u128 << 32) {
        rep.count("states_b_ge_2^32", 1);
    }
    if n > 0 {
        if st.slow.digest() != d {
            rep.violation("C17|RollingChecksum|digest!=definition", json!({"ctx": ctx(), "got": format!("{:08x}", st.slow.digest()), "want": format!("{d:08x}"), "len": n}));
        }
        if st.fast.digest() != d {
            rep.violation("C17|FastRollingChecksum|digest!=definition", json!({"ctx": ctx(), "got": format!("{:08x}", st.fast.digest()), "want": format!("{d:08x}"), "len": n}));
        }
        if st.slow.digest() != st.fast.digest() && st.slow.digest() == d {
            rep.violation("C17|cross-type|digest-differs", json!({"ctx": ctx()}));
        }
        if u128::from(st.slow.sum_a()) >= MOD || u128::from(st.slow.sum_b()) >= MOD {
            rep.violation("C17|RollingChecksum|component>=MOD", json!({"ctx": ctx(), "a": st.slow.sum_a(), "b": st.slow.sum_b()}));
        }
        if st.slow.len() != n {
            rep.violation("C17|RollingChecksum|len", json!({"ctx": ctx(), "got": st.slow.len(), "want": n}));
        }
        if st.fast.len() != n {
            rep.violation("C17|FastRollingChecksum|len", json!({"ctx": ctx(), "got": st.fast.len(), "want": n}));
        }
        if st.slow.is_empty() != (n == 0) || st.fast.is_empty() != (n == 0) {
            rep.violation("C17|is_empty", json!({"ctx": ctx()}));
        }
    }
    if recheck_fresh {
        let v: Vec<u8> = st.win.iter().copied().collect();
        let f1 = RollingChecksum::new(&v).digest();
        let f2 = FastRollingChecksum::new(&v).digest();
        rep.count("fresh_constructions_checked", 1);
        if f1 != d {
            rep.violation("C17|RollingChecksum::new|digest!=definition", json!({"ctx": ctx(), "got": format!("{f1:08x}"), "want": format!("{d:08x}"), "len": n}));
        }
        if f2 != d {
            rep.violation("C17|FastRollingChecksum::new|digest!=definition", json!({"ctx": ctx(), "got": format!("{f2:08x}"), "want": format!("{d:08x}"), "len": n}));
        }
    }
}

fn start_len(rng: &mut Rng, big: bool) -> usize {
    let opts: &[usize] = if big { &[0, 1, 2, 3, 100, 512, 2048, 5803, 5804, 5805, 8192, 16384, 65535, 65536] } else { &[0, 1, 2, 3, 17, 100, 512, 700, 2048, 5803, 5804, 5805, 8192] };
    if rng.chance(1, 4) {
        rng.range(1, if big { 65536 } else { 9000 })
    } else {
        *rng.pick(opts)
    }
}

fn one_sequence(seed: u64, idx: u64, thorough: bool, rep: &mut Report) {
    let mut rng = Rng::derive(seed, 17, idx);
    let d0 = *rng.pick(&DISTS);
    let d1 = if rng.chance(1, 3) { *rng.pick(&DISTS) } else { d0 };
    let big = !crate::util::tiny() && rng.chance(if thorough { 1 } else { 1 }, if thorough { 3 } else { 6 });
    let n0 = if crate::util::tiny() { rng.range(0, 40) } else { start_len(&mut rng, big) };
    let init: Vec<u8> = (0..n0).map(|i| draw(&mut rng, d0, i)).collect();
    let mix = rng.below(4); // 0 roll-only, 1 push-heavy, 2 mixed, 3 push-only growth
    let budget: usize = if crate::util::tiny() { rng.range(30, 120) } else if big { rng.range(70_000, 210_000) } else { rng.range(200, 24_000) };
    let ctxv = json!({"seed": seed, "seq": idx, "start_len": n0, "dist0": format!("{d0:?}"), "dist1": format!("{d1:?}"), "mix": mix});
    let r = guarded(|| {
        let mut rep_local = Report::default();
        let mut st = State::new(&init);
        let mut opno = 0usize;
        {
            let c = ctxv.clone();
            check(&st, true, &mut rep_local, &move || json!({"case": c, "op": "new", "opno": 0}));
        }
        let mut i = n0;
        // fresh recheck is O(n); do it at a stride so cost stays ~O(ops)
        let stride = (st.win.len() / 8).max(16);
        let mut neg = 0u64;
        while opno < budget {
            opno += 1;
            let do_push = match mix {
                0 => st.win.is_empty(),
                1 => rng.chance(2, 3) || st.win.is_empty(),
                2 => rng.chance(1, 4) || st.win.is_empty(),
                _ => true,
            } && st.win.len() < 65536;
            let x = draw(&mut rng, d1, i);
            i += 1;
            let opname;
            if do_push {
                st.push(x);
                opname = "push";
            } else {
                if st.win.is_empty() {
                    continue;
                }
                let a_before = st.slow.sum_a();
                let old = st.roll(x);
                if u32::from(old) > a_before {
                    neg += 1;
                }
                opname = "roll";
            }
            let fresh = opno % stride == 0 || opno == budget;
            let c = ctxv.clone();
            let before = rep_local.violations.len();
            check(&st, fresh, &mut rep_local, &move || json!({"case": c, "op": opname, "opno": opno}));
            if rep_local.violations.len() > before && rep_local.violations.len() >= 5 {
                // enough witnesses from this sequence; keep counting ops cheaply is pointless
                break;
            }
        }
        rep_local.count("negative_intermediate_rolls", neg);
        rep_local.count(if mix == 0 { "seq_roll_only" } else if mix == 3 { "seq_push_only" } else { "seq_mixed" }, 1);
        if opno > 5000 {
            rep_local.count("seq_over_5000_ops", 1);
        }
        rep_local
    });
    rep.evaluations += 1;
    match r {
        Caught::Ok(rl) => {
            let nontrivial = rl.counters.get("ops_checked").copied().unwrap_or(0) > 1;
            if nontrivial {
                let lc = match n0 {
                    0 => "0",
                    1..=3 => "1-3",
                    4..=5803 => "<5804",
                    5804..=8191 => "5804+",
                    8192..=65534 => "8192+",
                    _ => "max",
                };
                rep.distinct.insert(format!("{lc}|{d0:?}>{d1:?}|mix{mix}"));
            }
            rep.sample(json!({"case": ctxv, "ops": rl.counters.get("ops_checked")}), 4);
            rep.merge(rl);
        }
        Caught::Panicked(m) => rep.violation("C17|panic", json!({"case": ctxv, "panic": m})),
    }
}

/// All windows of length <= 3 over a corner alphabet, every single roll and push.
fn exhaustive_corner(rep: &mut Report) {
    let alpha = [0u8, 1, 127, 128, 254, 255];
    let mut wins: Vec<Vec<u8>> = vec![vec![]];
    for l in 1..=3 {
        let mut idx = vec![0usize; l];
        loop {
            wins.push(idx.iter().map(|&i| alpha[i]).collect());
            let mut k = 0;
            while k < l {
                idx[k] += 1;
                if idx[k] < alpha.len() {
                    break;
                }
                idx[k] = 0;
                k += 1;
            }
            if k == l {
                break;
            }
        }
    }
    for w in &wins {
        for &x in &alpha {
            for roll in [false, true] {
                if roll && w.is_empty() {
                    continue;
                }
                let mut st = State::new(w);
                if roll {
                    st.roll(x);
                } else {
                    st.push(x);
                }
                let wv = w.clone();
                check(&st, true, rep, &move || json!({"corner_window": wv, "x": x, "roll": roll}));
                rep.count("corner_cases", 1);
            }
        }
    }
    rep.evaluations += 1;
    rep.distinct.insert("corner-exhaustive".into());
}

/// Very long histories: tens of millions of consecutive slides of one object (a lazily normalised
/// accumulator must never overflow, however long the history), checked after every slide.
fn marathon(seed: u64, idx: u64, rolls: usize, rep: &mut Report) {
    let mut rng = Rng::derive(seed, 1717, idx);
    let n0 = *rng.pick(&[512usize, 2048, 8192, 65536]);
    let d = *rng.pick(&[Dist::Uniform, Dist::High, Dist::FF]);
    let init: Vec<u8> = (0..n0).map(|i| draw(&mut rng, d, i)).collect();
    let ctxv = json!({"seed": seed, "marathon": idx, "window": n0, "dist": format!("{d:?}"), "rolls": rolls});
    rep.evaluations += 1;
    let r = guarded(|| {
        let mut rl = Report::default();
        let mut st = State::new(&init);
        for opno in 1..=rolls {
            let x = draw(&mut rng, d, opno);
            st.roll(x);
            let fresh = opno % 4_000_000 == 0 || opno == rolls;
            let c = ctxv.clone();
            let before = rl.violations.len();
            check(&st, fresh, &mut rl, &move || json!({"case": c, "op": "roll", "opno": opno}));
            if rl.violations.len() > before {
                break;
            }
        }
        rl
    });
    match r {
        Caught::Ok(rl) => {
            rep.count("marathon_rolls_checked", rl.counters.get("ops_checked").copied().unwrap_or(0));
            rep.distinct.insert(format!("marathon|w{n0}|{d:?}"));
            rep.merge(rl);
        }
        Caught::Panicked(m) => rep.violation("C17|panic", json!({"case": ctxv, "panic": m})),
    }
}

/// Direct construction over long, piecewise windows: a head from one distribution, then long runs of extreme
/// bytes (an accumulator that is reduced every N bytes must be reduced in time for the worst run, wherever
/// in the window that run starts and whatever residue precedes it).  `new` of both types against the exact
/// definition, for the whole window and for a few prefixes.
fn construction(seed: u64, idx: u64, rep: &mut Report) {
    let mut rng = Rng::derive(seed, 171717, idx);
    let total = *rng.pick(&[11_106usize, 16_384, 32_768, 65_536, 65_536, 131_072, 200_000]);
    let mut v: Vec<u8> = Vec::with_capacity(total);
    let shape = rng.below(4);
    let head_d = *rng.pick(&[Dist::Uniform, Dist::High, Dist::Alt, Dist::Ramp, Dist::Zero, Dist::Low]);
    let head = match shape {
        0 => rng.range(0, total.saturating_sub(5553)),
        1 => rng.range(0, 600),
        2 => *rng.pick(&[256usize, 257, 5552, 5553, 5554, 5803, 5804]),
        _ => rng.range(0, total),
    };
    for i in 0..head.min(total) {
        v.push(draw(&mut rng, head_d, i));
    }
    // one byte that sets the residue, a gap of zeros, then the extreme run(s)
    if v.len() < total && rng.chance(1, 2) {
        v.push(rng.byte());
        let gap = rng.range(0, 6000).min(total - v.len());
        v.extend(std::iter::repeat(0u8).take(gap));
    }
    while v.len() < total {
        let run = rng.range(1, 12_000).min(total - v.len());
        let d = *rng.pick(&[Dist::FF, Dist::FF, Dist::FF, Dist::High, Dist::Uniform, Dist::Zero]);
        for i in 0..run {
            v.push(draw(&mut rng, d, i));
        }
    }
    let ctxv = json!({"seed": seed, "construction": idx, "len": total, "shape": shape, "head": head, "head_dist": format!("{head_d:?}")});
    rep.evaluations += 1;
    let mut cuts = vec![total];
    for _ in 0..3 {
        cuts.push(rng.range(1, total));
    }
    for k in cuts {
        let w = &v[..k];
        let (_, _, d) = weak_exact(w.iter());
        let r = guarded(|| (RollingChecksum::new(w).digest(), FastRollingChecksum::new(w).digest()));
        rep.count("long_windows_constructed", 1);
        match r {
            Caught::Ok((f1, f2)) => {
                if f1 != d {
                    rep.violation("C17|RollingChecksum::new|digest!=definition", json!({"ctx": ctxv, "prefix": k, "got": format!("{f1:08x}"), "want": format!("{d:08x}")}));
                }
                if f2 != d {
                    rep.violation("C17|FastRollingChecksum::new|digest!=definition", json!({"ctx": ctxv, "prefix": k, "got": format!("{f2:08x}"), "want": format!("{d:08x}")}));
                }
            }
            Caught::Panicked(m) => rep.violation("C17|panic", json!({"case": ctxv, "prefix": k, "panic": m})),
        }
    }
    rep.distinct.insert(format!("construct|s{shape}|{head_d:?}|{}", total / 16_384));
}

/// Windows crafted so that the byte sum (and, in half of the cases, the weighted sum as well) is an exact non-zero
/// multiple of 65521: a state whose stored residue is 0 although the window is not all zeros. Then every kind of
/// next step, in particular sliding a zero byte in.
fn residue_zero(seed: u64, idx: u64, rep: &mut Report) {
    let mut rng = Rng::derive(seed, 1_717_171, idx);
    let len = *rng.pick(&[257usize, 300, 512, 2048, 8192, 65_536, 65_521, 70_000]);
    let d = *rng.pick(&[Dist::Uniform, Dist::High, Dist::FF, Dist::Low, Dist::Alt]);
    let mut w: Vec<u8> = (0..len).map(|i| draw(&mut rng, d, i)).collect();
    w[0] = w[0].max(1);
    let modu = MOD as u64;
    let fix_a = |w: &mut Vec<u8>| {
        let sum: u64 = w.iter().map(|b| u64::from(*b)).sum();
        let mut need = (modu - sum % modu) % modu; // add this much ...
        if sum + need < modu {
            need += modu; // ... and make sure the total is a NON-zero multiple
        }
        let room: u64 = w.iter().skip(1).map(|b| u64::from(255 - *b)).sum();
        if need <= room {
            for b in w.iter_mut().skip(1) {
                let k = need.min(u64::from(255 - *b));
                *b += k as u8;
                need -= k;
            }
            true
        } else {
            let mut drop = sum % modu;
            if sum - drop == 0 {
                return false;
            }
            for b in w.iter_mut().skip(1) {
                let k = drop.min(u64::from(*b));
                *b -= k as u8;
                drop -= k;
            }
            drop == 0
        }
    };
    if !fix_a(&mut w) {
        return;
    }
    rep.evaluations += 1;
    let ctxv = json!({"seed": seed, "residue_case": idx, "len": len, "dist": format!("{d:?}")});
    let r = guarded(|| {
        let mut rl = Report::default();
        for variant in 0..4 {
            let mut st = State::new(&w);
            let c = ctxv.clone();
            check(&st, true, &mut rl, &move || json!({"case": c, "op": "new"}));
            let steps: Vec<(bool, u8)> = match variant {
                0 => vec![(true, 0), (true, 0), (true, 7)],
                1 => vec![(true, 0xFF), (true, 0)],
                2 => vec![(false, 0), (true, 0)],
                _ => (0..40).map(|i| (true, if i % 3 == 0 { 0 } else { rng.byte() })).collect(),
            };
            for (i, (is_roll, x)) in steps.into_iter().enumerate() {
                if is_roll {
                    st.roll(x);
                } else {
                    st.push(x);
                }
                let c = ctxv.clone();
                check(&st, i % 8 == 0, &mut rl, &move || json!({"case": c, "variant": variant, "step": i, "roll": is_roll, "in": x}));
            }
        }
        rl
    });
    match r {
        Caught::Ok(rl) => {
            rep.count("windows_with_byte_sum_a_multiple_of_65521", 1);
            rep.distinct.insert(format!("residue0|{}|{d:?}", len / 1000));
            rep.merge(rl);
        }
        Caught::Panicked(m) => rep.violation("C17|panic", json!({"case": ctxv, "panic": m})),
    }
}

pub fn run(seed: u64, thorough: bool, cases: Option<u64>) -> Report {
    let n = cases.unwrap_or(if thorough { 5000 } else { 320 });
    let mut rep = par_cases(n, |i, r| one_sequence(seed, i, thorough, r));
    if !crate::util::tiny() {
        exhaustive_corner(&mut rep);
        let (k, rolls) = if thorough { (8u64, 70_000_000usize) } else { (2u64, 30_000_000usize) };
        rep.merge(par_cases(k, |i, r| marathon(seed, i, rolls, r)));
        rep.merge(par_cases(if thorough { 60_000 } else { 4000 }, |i, r| construction(seed, i, r)));
        rep.merge(par_cases(if thorough { 20_000 } else { 1500 }, |i, r| residue_zero(seed, i, r)));
    }
    rep
}
