//! Thin wrappers over both copia engines, each call under catch_unwind.
use crate::util::{guarded, Caught};
use copia::async_sync::AsyncCopiaSync;
use copia::{CopiaError, CopiaSync, Delta, Signature, Sync};
use std::io::Cursor;
use std::pin::Pin;
use std::task::{Context, Poll};
use tokio::io::{AsyncRead, AsyncSeek, ReadBuf};

thread_local! {
    static RT: tokio::runtime::Runtime = tokio::runtime::Builder::new_current_thread().build().expect("rt");
}
pub fn block_on<F: std::future::Future>(f: F) -> F::Output {
    RT.with(|rt| rt.block_on(f))
}

pub type R<T> = Caught<Result<T, CopiaError>>;

pub fn sig_generate(basis: &[u8], bs: usize) -> R<Signature> {
    guarded(|| Signature::generate(&mut Cursor::new(basis), bs))
}
pub fn sig_sync_trait(basis: &[u8], bs: usize) -> R<Signature> {
    guarded(|| CopiaSync::with_block_size(bs).signature(Cursor::new(basis)))
}
pub fn sig_async(basis: &[u8], bs: usize) -> R<Signature> {
    guarded(|| block_on(AsyncCopiaSync::with_block_size(bs).signature(Cursor::new(basis))))
}
pub fn delta_sync(source: &[u8], sig: &Signature) -> R<Delta> {
    guarded(|| CopiaSync::new().delta(Cursor::new(source), sig))
}
pub fn delta_async(source: &[u8], sig: &Signature) -> R<Delta> {
    guarded(|| block_on(AsyncCopiaSync::new().delta(Cursor::new(source), sig)))
}

/// (result, output bytes, basis read log, any read outside basis)
pub struct PatchOut {
    pub res: R<()>,
    pub out: Vec<u8>,
    pub reads: Vec<(u64, usize, usize)>,
}
pub fn patch_sync(basis: &[u8], delta: &Delta) -> PatchOut {
    let mut out = Vec::new();
    let mut rr = crate::util::RecReader::new(basis);
    let res = guarded(|| CopiaSync::new().patch(&mut rr, delta, &mut out));
    PatchOut { res, out, reads: rr.log }
}

pub struct RecAsync<'a> {
    pub inner: Cursor<&'a [u8]>,
    pub log: Vec<(u64, usize, usize)>,
    pub empty_reads: u32,
}
impl AsyncRead for RecAsync<'_> {
    fn poll_read(mut self: Pin<&mut Self>, cx: &mut Context<'_>, buf: &mut ReadBuf<'_>) -> Poll<std::io::Result<()>> {
        let pos = self.inner.position();
        let before = buf.filled().len();
        let want = buf.remaining();
        let r = Pin::new(&mut self.inner).poll_read(cx, buf);
        let got = buf.filled().len() - before;
        if got > 0 || self.empty_reads < 8 {
            self.log.push((pos, want, got));
        }
        crate::util::note_read(&mut self.empty_reads, want, got);
        r
    }
}
impl AsyncSeek for RecAsync<'_> {
    fn start_seek(mut self: Pin<&mut Self>, position: std::io::SeekFrom) -> std::io::Result<()> {
        Pin::new(&mut self.inner).start_seek(position)
    }
    fn poll_complete(mut self: Pin<&mut Self>, cx: &mut Context<'_>) -> Poll<std::io::Result<u64>> {
        Pin::new(&mut self.inner).poll_complete(cx)
    }
}
pub fn patch_async(basis: &[u8], delta: &Delta) -> PatchOut {
    let mut out = Vec::new();
    let mut rr = RecAsync { inner: Cursor::new(basis), log: Vec::new(), empty_reads: 0 };
    let res = guarded(|| block_on(AsyncCopiaSync::new().patch(&mut rr, delta, &mut out)));
    PatchOut { res, out, reads: rr.log }
}

pub fn err_name(e: &CopiaError) -> &'static str {
    match e {
        CopiaError::Io(_) => "Io",
        CopiaError::InvalidBlockSize(_) => "InvalidBlockSize",
        CopiaError::InvalidHashLength(_) => "InvalidHashLength",
        CopiaError::InvalidCopyBounds { .. } => "InvalidCopyBounds",
        CopiaError::ChecksumMismatch { .. } => "ChecksumMismatch",
        CopiaError::EmptySignature => "EmptySignature",
        CopiaError::CorruptedDelta => "CorruptedDelta",
        CopiaError::ProtocolError(_) => "ProtocolError",
    }
}
