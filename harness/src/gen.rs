//! Structured generators for (basis, source, block size) cases.
use crate::util::Rng;

pub const CLI_BS: [usize; 8] = [512, 1024, 2048, 4096, 8192, 16384, 32768, 65536];

#[derive(Clone, Copy, Debug, PartialEq, Eq)]
pub enum BlockKind {
    Random,
    AllFF,
    HighNoise,
    Ramp,
    Zeros,
    TwoSym,
    Text,
}
pub const KINDS: [BlockKind; 7] = [BlockKind::Random, BlockKind::AllFF, BlockKind::HighNoise, BlockKind::Ramp, BlockKind::Zeros, BlockKind::TwoSym, BlockKind::Text];

pub fn gen_block(rng: &mut Rng, n: usize, kind: BlockKind) -> Vec<u8> {
    match kind {
        BlockKind::Random => rng.bytes(n),
        BlockKind::AllFF => vec![0xFF; n],
        BlockKind::HighNoise => rng.bytes(n).into_iter().map(|b| 0xF0 | (b & 0x0F)).collect(),
        BlockKind::Ramp => {
            let s = rng.byte();
            (0..n).map(|i| s.wrapping_add(i as u8)).collect()
        }
        BlockKind::Zeros => vec![0; n],
        BlockKind::TwoSym => {
            let a = rng.byte();
            let b = rng.byte();
            rng.bytes(n).into_iter().map(|x| if x & 1 == 0 { a } else { b }).collect()
        }
        BlockKind::Text => {
            let words: [&[u8]; 6] = [b"the ", b"quick ", b"copia ", b"delta ", b"\n", b"block "];
            let mut v = Vec::with_capacity(n + 8);
            while v.len() < n {
                v.extend_from_slice(words[rng.below(6) as usize]);
            }
            v.truncate(n);
            v
        }
    }
}

/// A block with the same a and b weak sums but different content:
/// +1, -2, +1 at three equally spaced positions. None if not constructible.
pub fn weak_twin(rng: &mut Rng, block: &[u8]) -> Option<Vec<u8>> {
    let n = block.len();
    if n < 3 {
        return None;
    }
    for _ in 0..64 {
        let d = 1 + rng.below(((n - 1) / 2) as u64) as usize;
        let i = rng.below((n - 2 * d) as u64) as usize;
        if block[i] < 255 && block[i + d] >= 2 && block[i + 2 * d] < 255 {
            let mut t = block.to_vec();
            t[i] += 1;
            t[i + d] -= 2;
            t[i + 2 * d] += 1;
            return Some(t);
        }
    }
    None
}

#[derive(Clone, Debug, Default)]
pub struct CaseMeta {
    pub edit_shape: String,
    pub has_twin: bool,
    pub has_repeat: bool,
    pub kind_mask: u32,
    pub junk_prefix: usize,
}

pub struct Case {
    pub basis: Vec<u8>,
    pub source: Vec<u8>,
    pub bs: usize,
    pub meta: CaseMeta,
}

/// Basis from a pool of distinct blocks (repeats and weak twins on purpose).
pub fn gen_basis(rng: &mut Rng, bs: usize, max_blocks: usize, meta: &mut CaseMeta) -> Vec<u8> {
    let pool_n = rng.range(2, 6);
    let mut pool: Vec<Vec<u8>> = Vec::new();
    for _ in 0..pool_n {
        let k = *rng.pick(&KINDS);
        meta.kind_mask |= 1 << (k as u32);
        pool.push(gen_block(rng, bs, k));
    }
    if rng.chance(1, 2) {
        let j = rng.below(pool.len() as u64) as usize;
        let src = pool[j].clone();
        if let Some(t) = weak_twin(rng, &src) {
            pool.push(t);
            meta.has_twin = true;
        }
    }
    let nblocks = match rng.below(10) {
        0 => 0,
        1 => 1,
        _ => rng.range(1, max_blocks.max(1)),
    };
    let mut basis = Vec::new();
    let mut used = std::collections::BTreeSet::new();
    for _ in 0..nblocks {
        let j = rng.below(pool.len() as u64) as usize;
        if !used.insert(j) {
            meta.has_repeat = true;
        }
        basis.extend_from_slice(&pool[j]);
    }
    // tail
    match rng.below(4) {
        0 => {}
        1 => basis.push(rng.byte()),
        2 => {
            let t = rng.range(1, bs - 1);
            basis.extend_from_slice(&rng.bytes(t));
        }
        _ => {
            let t = bs - 1;
            basis.extend_from_slice(&rng.bytes(t));
        }
    }
    basis
}

/// Apply a random edit script; returns the shape tag.
pub fn edit(rng: &mut Rng, basis: &[u8], bs: usize, meta: &mut CaseMeta) -> Vec<u8> {
    let mut s = basis.to_vec();
    let nedits = match rng.below(8) {
        0 => 0,
        1..=4 => 1,
        5 | 6 => 2,
        _ => rng.range(3, 6),
    };
    let mut shape = String::new();
    for _ in 0..nedits {
        let kind = rng.below(9);
        let small = |rng: &mut Rng| -> usize {
            match rng.below(5) {
                0 => 1,
                1 => rng.range(1, 16),
                2 => rng.range(1, bs),
                3 => bs,
                _ => rng.range(1, 3 * bs),
            }
        };
        match kind {
            0 => {
                // insert
                let k = small(rng);
                let at = rng.range(0, s.len());
                let ins = rng.bytes(k);
                s.splice(at..at, ins);
                shape.push('I');
            }
            1 => {
                if !s.is_empty() {
                    let at = rng.range(0, s.len() - 1);
                    let k = small(rng).min(s.len() - at);
                    s.drain(at..at + k);
                    shape.push('D');
                }
            }
            2 => {
                if !s.is_empty() {
                    let at = rng.range(0, s.len() - 1);
                    let k = small(rng).min(s.len() - at);
                    for b in &mut s[at..at + k] {
                        *b ^= 0x5A;
                    }
                    shape.push('R');
                }
            }
            3 => {
                // block shuffle
                let nb = s.len() / bs;
                if nb >= 2 {
                    let i = rng.below(nb as u64) as usize;
                    let j = rng.below(nb as u64) as usize;
                    if i != j {
                        let (a, b) = (i.min(j), i.max(j));
                        let (l, r) = s.split_at_mut(b * bs);
                        l[a * bs..a * bs + bs].swap_with_slice(&mut r[..bs]);
                    }
                    shape.push('S');
                }
            }
            4 => {
                // duplicate a region
                if !s.is_empty() {
                    let at = rng.range(0, s.len() - 1);
                    let k = small(rng).min(s.len() - at);
                    let dup = s[at..at + k].to_vec();
                    let to = rng.range(0, s.len());
                    s.splice(to..to, dup);
                    shape.push('U');
                }
            }
            5 => {
                let k = rng.range(0, s.len());
                s.truncate(k);
                shape.push('T');
            }
            6 => {
                // junk prefix so that matches appear only after many slides
                let k = *rng.pick(&[1usize, 7, 4999, 5000, 5001, 12345]);
                let k = if bs > 8192 && k > 5001 { 5001 } else { k };
                let mut j = rng.bytes(k);
                j.extend_from_slice(&s);
                s = j;
                meta.junk_prefix = meta.junk_prefix.max(k);
                shape.push('P');
            }
            7 => {
                let k = small(rng);
                s.extend_from_slice(&rng.bytes(k));
                shape.push('A');
            }
            _ => {
                // flip one bit
                if !s.is_empty() {
                    let at = rng.range(0, s.len() - 1);
                    s[at] ^= 1 << rng.below(8);
                    shape.push('F');
                }
            }
        }
    }
    if shape.is_empty() {
        shape.push('=');
    }
    meta.edit_shape = shape;
    s
}

pub fn size_class(n: usize, bs: usize) -> &'static str {
    if n == 0 {
        "0"
    } else if n < bs {
        "<bs"
    } else if n == bs {
        "=bs"
    } else if n <= 64 * 1024 {
        "blocks"
    } else {
        ">64K"
    }
}

/// max_total bounds basis size in bytes (keeps big block sizes affordable).
pub fn gen_case(rng: &mut Rng, bs: usize, max_total: usize) -> Case {
    let mut meta = CaseMeta::default();
    let max_blocks = (max_total / bs).clamp(2, 14);
    let basis = match rng.below(12) {
        0 => Vec::new(),
        1 => rng.bytes_r(1, bs.min(64)),
        _ => gen_basis(rng, bs, max_blocks, &mut meta),
    };
    let source = match rng.below(14) {
        0 => Vec::new(),
        1 => rng.bytes_r(1, 2 * bs),
        _ => edit(rng, &basis, bs, &mut meta),
    };
    if meta.edit_shape.is_empty() {
        meta.edit_shape = "x".into();
    }
    Case { basis, source, bs, meta }
}
