//! Shared pieces of the in-process harness: PRNG, counting allocator,
//! panic capture, recording readers, JSON report plumbing.
use std::alloc::{GlobalAlloc, Layout, System};
use std::cell::{Cell, RefCell};
use std::collections::BTreeMap;
use std::io::{Read, Seek, SeekFrom};
use std::panic::{catch_unwind, AssertUnwindSafe};

// ---------------------------------------------------------------- tiny mode (Miri / valgrind shards)
static TINY: std::sync::atomic::AtomicBool = std::sync::atomic::AtomicBool::new(false);
pub fn set_tiny(v: bool) {
    TINY.store(v, std::sync::atomic::Ordering::Relaxed);
}
/// Workloads shrink by 3-4 orders of magnitude: interpreters are 10^3-10^4 x slower.
pub fn tiny() -> bool {
    TINY.load(std::sync::atomic::Ordering::Relaxed)
}

// ---------------------------------------------------------------- PRNG
#[derive(Clone)]
pub struct Rng(pub u64);
impl Rng {
    pub fn new(seed: u64) -> Self {
        let mut r = Rng(seed ^ 0x9E37_79B9_7F4A_7C15);
        r.next();
        r
    }
    pub fn derive(seed: u64, a: u64, b: u64) -> Self {
        let mut r = Rng::new(seed.wrapping_mul(0xD6E8_FEB8_6659_FD93) ^ a.wrapping_mul(0xA24B_AED4_963E_E407) ^ b.wrapping_mul(0x9FB2_1C65_1E98_DF25));
        r.next();
        r
    }
    pub fn next(&mut self) -> u64 {
        self.0 = self.0.wrapping_add(0x9E37_79B9_7F4A_7C15);
        let mut z = self.0;
        z = (z ^ (z >> 30)).wrapping_mul(0xBF58_476D_1CE4_E5B9);
        z = (z ^ (z >> 27)).wrapping_mul(0x94D0_49BB_1331_11EB);
        z ^ (z >> 31)
    }
    pub fn below(&mut self, n: u64) -> u64 {
        if n == 0 {
            0
        } else {
            self.next() % n
        }
    }
    pub fn range(&mut self, lo: usize, hi: usize) -> usize {
        // inclusive lo, inclusive hi
        if hi <= lo {
            return lo;
        }
        lo + self.below((hi - lo + 1) as u64) as usize
    }
    pub fn chance(&mut self, num: u64, den: u64) -> bool {
        self.below(den) < num
    }
    pub fn byte(&mut self) -> u8 {
        (self.next() >> 24) as u8
    }
    pub fn bytes(&mut self, n: usize) -> Vec<u8> {
        let mut v = Vec::with_capacity(n);
        while v.len() + 8 <= n {
            v.extend_from_slice(&self.next().to_le_bytes());
        }
        while v.len() < n {
            v.push(self.byte());
        }
        v
    }
    pub fn bytes_r(&mut self, lo: usize, hi: usize) -> Vec<u8> {
        let n = self.range(lo, hi);
        self.bytes(n)
    }
    pub fn pick<'a, T>(&mut self, xs: &'a [T]) -> &'a T {
        &xs[self.below(xs.len() as u64) as usize]
    }
}

// ---------------------------------------------------------------- allocator
pub struct CountingAlloc;
thread_local! {
    static A_ON: Cell<bool> = const { Cell::new(false) };
    static A_MAX: Cell<usize> = const { Cell::new(0) };
    static A_LIVE: Cell<isize> = const { Cell::new(0) };
    static A_PEAK: Cell<isize> = const { Cell::new(0) };
}
#[inline]
fn rec_alloc(sz: usize) {
    let _ = A_ON.try_with(|on| {
        if on.get() {
            let _ = A_MAX.try_with(|m| {
                if sz > m.get() {
                    m.set(sz)
                }
            });
            let _ = A_LIVE.try_with(|l| {
                l.set(l.get() + sz as isize);
                let _ = A_PEAK.try_with(|p| {
                    if l.get() > p.get() {
                        p.set(l.get())
                    }
                });
            });
        }
    });
}
#[inline]
fn rec_free(sz: usize) {
    let _ = A_ON.try_with(|on| {
        if on.get() {
            let _ = A_LIVE.try_with(|l| l.set(l.get() - sz as isize));
        }
    });
}
/// A single request above this, made by code under accounting, is refused (null): with overcommit a terabyte
/// "succeeds" and zeroing it takes the machine down. Rust then aborts with "memory allocation of N bytes failed",
/// which the driver reports as a violation of the memory bound (nothing in the harness asks for that much).
pub const HARD_REQUEST_CAP: usize = 1 << 30;
#[inline]
fn refused(sz: usize) -> bool {
    sz > HARD_REQUEST_CAP && A_ON.try_with(Cell::get).unwrap_or(false)
}
unsafe impl GlobalAlloc for CountingAlloc {
    unsafe fn alloc(&self, l: Layout) -> *mut u8 {
        if refused(l.size()) {
            return std::ptr::null_mut();
        }
        rec_alloc(l.size());
        System.alloc(l)
    }
    unsafe fn alloc_zeroed(&self, l: Layout) -> *mut u8 {
        if refused(l.size()) {
            return std::ptr::null_mut();
        }
        rec_alloc(l.size());
        System.alloc_zeroed(l)
    }
    unsafe fn dealloc(&self, p: *mut u8, l: Layout) {
        rec_free(l.size());
        System.dealloc(p, l)
    }
    unsafe fn realloc(&self, p: *mut u8, l: Layout, new: usize) -> *mut u8 {
        if refused(new) {
            return std::ptr::null_mut();
        }
        rec_free(l.size());
        rec_alloc(new);
        System.realloc(p, l, new)
    }
}

/// Bytes currently allocated by the code under accounting on this thread (0 when accounting is off).
pub fn live_bytes() -> isize {
    A_LIVE.try_with(Cell::get).unwrap_or(0)
}
/// The harness's own readers refuse to go on once the code they feed holds this much: an implementation whose
/// memory grows with every short read would otherwise take the whole machine down before any oracle runs.
pub const READER_MEMORY_STOP: isize = 256 << 20;
fn reader_stop() -> std::io::Result<()> {
    if live_bytes() > READER_MEMORY_STOP {
        return Err(std::io::Error::new(std::io::ErrorKind::OutOfMemory, "harness reader: the consumer holds more than 256 MiB"));
    }
    Ok(())
}

#[derive(Clone, Copy, Debug, Default)]
pub struct AllocStats {
    pub max_request: usize,
    pub peak_live: isize,
}
/// Run `f` with allocation accounting on this thread.
pub fn alloc_scope<T>(f: impl FnOnce() -> T) -> (T, AllocStats) {
    A_MAX.with(|m| m.set(0));
    A_LIVE.with(|m| m.set(0));
    A_PEAK.with(|m| m.set(0));
    A_ON.with(|o| o.set(true));
    struct Off;
    impl Drop for Off {
        fn drop(&mut self) {
            A_ON.with(|o| o.set(false));
        }
    }
    let _g = Off;
    let r = f();
    let st = AllocStats { max_request: A_MAX.with(Cell::get), peak_live: A_PEAK.with(Cell::get) };
    (r, st)
}

// ---------------------------------------------------------------- panics
thread_local! {
    static LAST_PANIC: RefCell<Option<String>> = const { RefCell::new(None) };
    static IN_GUARD: Cell<u32> = const { Cell::new(0) };
}
pub fn install_panic_hook() {
    std::panic::set_hook(Box::new(|info| {
        let msg = if let Some(s) = info.payload().downcast_ref::<&str>() {
            (*s).to_string()
        } else if let Some(s) = info.payload().downcast_ref::<String>() {
            s.clone()
        } else {
            "<non-string panic>".to_string()
        };
        let loc = info.location().map(|l| format!("{}:{}", l.file(), l.line())).unwrap_or_default();
        if IN_GUARD.with(Cell::get) == 0 {
            eprintln!("vh: harness panic outside a guarded call: {msg} @ {loc}");
        }
        LAST_PANIC.with(|p| *p.borrow_mut() = Some(format!("{msg} @ {loc}")));
    }));
}
pub enum Caught<T> {
    Ok(T),
    Panicked(String),
}
pub fn guarded<T>(f: impl FnOnce() -> T) -> Caught<T> {
    LAST_PANIC.with(|p| *p.borrow_mut() = None);
    IN_GUARD.with(|g| g.set(g.get() + 1));
    let r = catch_unwind(AssertUnwindSafe(f));
    IN_GUARD.with(|g| g.set(g.get() - 1));
    match r {
        Ok(v) => Caught::Ok(v),
        Err(_) => Caught::Panicked(LAST_PANIC.with(|p| p.borrow_mut().take()).unwrap_or_else(|| "<panic>".into())),
    }
}

// ---------------------------------------------------------------- recording reader
/// `Read + Seek` over bytes that records every (offset, requested, returned).
pub struct RecReader<'a> {
    pub data: &'a [u8],
    pub pos: u64,
    pub log: Vec<(u64, usize, usize)>,
    pub oob: bool,
    pub empty_reads: u32,
}
impl<'a> RecReader<'a> {
    pub fn new(data: &'a [u8]) -> Self {
        Self { data, pos: 0, log: Vec::new(), oob: false, empty_reads: 0 }
    }
}

/// A consumer that asks again and again at the end of its input and never gives up is hanging; the bound is logical
/// (consecutive reads that returned nothing), not a clock. Correct consumers stop after one or two.
pub const SPIN_READS: u32 = 50_000;
pub fn note_read(empty_reads: &mut u32, wanted: usize, got: usize) {
    if wanted > 0 && got == 0 {
        *empty_reads += 1;
        if *empty_reads >= SPIN_READS {
            *empty_reads = 0;
            panic!("harness reader: SPIN - {SPIN_READS} consecutive reads at the end of the input returned nothing and the consumer keeps asking (a hang)");
        }
    } else if got > 0 {
        *empty_reads = 0;
    }
}
impl Read for RecReader<'_> {
    fn read(&mut self, buf: &mut [u8]) -> std::io::Result<usize> {
        reader_stop()?;
        let len = self.data.len() as u64;
        let start = self.pos.min(len) as usize;
        let n = buf.len().min(self.data.len() - start);
        buf[..n].copy_from_slice(&self.data[start..start + n]);
        if n > 0 || self.empty_reads < 8 {
            self.log.push((self.pos, buf.len(), n));
        }
        note_read(&mut self.empty_reads, buf.len(), n);
        self.pos += n as u64;
        Ok(n)
    }
}
impl Seek for RecReader<'_> {
    fn seek(&mut self, s: SeekFrom) -> std::io::Result<u64> {
        let np: i128 = match s {
            SeekFrom::Start(o) => o as i128,
            SeekFrom::End(d) => self.data.len() as i128 + d as i128,
            SeekFrom::Current(d) => self.pos as i128 + d as i128,
        };
        if np < 0 {
            return Err(std::io::Error::new(std::io::ErrorKind::InvalidInput, "negative seek"));
        }
        self.pos = np as u64;
        Ok(self.pos)
    }
}

/// Reader that hands out 1..=7 bytes per call (stress for framed decoders).
pub struct DribbleReader<'a> {
    pub data: &'a [u8],
    pub pos: usize,
    pub rng: Rng,
}
impl Read for DribbleReader<'_> {
    fn read(&mut self, buf: &mut [u8]) -> std::io::Result<usize> {
        reader_stop()?;
        if buf.is_empty() || self.pos >= self.data.len() {
            return Ok(0);
        }
        let k = (1 + self.rng.below(7) as usize).min(buf.len()).min(self.data.len() - self.pos);
        buf[..k].copy_from_slice(&self.data[self.pos..self.pos + k]);
        self.pos += k;
        Ok(k)
    }
}

// ---------------------------------------------------------------- report
#[derive(Default)]
pub struct Report {
    pub evaluations: u64,
    pub counters: BTreeMap<String, u64>,
    pub distinct: std::collections::BTreeSet<String>,
    pub samples: Vec<serde_json::Value>,
    pub violations: Vec<serde_json::Value>,
    pub inconclusive: u64,
    pub notes: Vec<String>,
}
impl Report {
    pub fn count(&mut self, k: &str, n: u64) {
        *self.counters.entry(k.to_string()).or_insert(0) += n;
    }
    pub fn max(&mut self, k: &str, n: u64) {
        let e = self.counters.entry(k.to_string()).or_insert(0);
        if n > *e {
            *e = n;
        }
    }
    pub fn sample(&mut self, v: serde_json::Value, cap: usize) {
        if self.samples.len() < cap {
            self.samples.push(v);
        }
    }
    /// sig: stable signature used by the known-findings matcher.
    pub fn violation(&mut self, sig: &str, detail: serde_json::Value) {
        self.count(&format!("violations[{sig}]"), 1);
        // keep at most 5 witnesses per signature
        let have = self.violations.iter().filter(|v| v["sig"] == sig).count();
        if have < 5 {
            self.violations.push(serde_json::json!({"sig": sig, "detail": detail}));
        }
    }
    pub fn merge(&mut self, o: Report) {
        self.evaluations += o.evaluations;
        self.inconclusive += o.inconclusive;
        for (k, v) in o.counters {
            if k.starts_with("max_") {
                self.max(&k, v);
            } else {
                self.count(&k, v);
            }
        }
        self.distinct.extend(o.distinct);
        for s in o.samples {
            if self.samples.len() < 12 {
                self.samples.push(s);
            }
        }
        for v in o.violations {
            let sig = v["sig"].as_str().unwrap_or("").to_string();
            let have = self.violations.iter().filter(|x| x["sig"] == sig.as_str()).count();
            if have < 5 {
                self.violations.push(v);
            }
        }
        self.notes.extend(o.notes);
    }
    pub fn to_json(&self) -> serde_json::Value {
        let total_viol: u64 = self.counters.iter().filter(|(k, _)| k.starts_with("violations[")).map(|(_, v)| *v).sum();
        serde_json::json!({
            "evaluations": self.evaluations,
            "distinct_nontrivial": self.distinct.len(),
            "distinct_keys_sample": self.distinct.iter().take(8).collect::<Vec<_>>(),
            "distinct_keys_all": self.distinct.iter().take(50_000).collect::<Vec<_>>(),
            "counters": self.counters,
            "samples": self.samples,
            "violations": self.violations,
            "violation_count": total_viol,
            "inconclusive": self.inconclusive,
            "notes": self.notes,
        })
    }
}

pub fn hex(b: &[u8]) -> String {
    let mut s = String::with_capacity(b.len() * 2);
    for x in b {
        s.push_str(&format!("{x:02x}"));
    }
    s
}
pub fn unhex(s: &str) -> Vec<u8> {
    (0..s.len() / 2).map(|i| u8::from_str_radix(&s[2 * i..2 * i + 2], 16).unwrap_or(0)).collect()
}
/// Short description of a byte string for samples (never dumps megabytes).
pub fn brief(b: &[u8]) -> serde_json::Value {
    let head = &b[..b.len().min(12)];
    serde_json::json!({"len": b.len(), "head": hex(head), "b3": hex(&blake3::hash(b).as_bytes()[..6])})
}

thread_local! {
    static CASE_DEPTH: Cell<u32> = const { Cell::new(0) };
}
static WORKERS: std::sync::atomic::AtomicUsize = std::sync::atomic::AtomicUsize::new(0);
/// `--threads N`: how many harness workers `par_cases` starts (default: one per core).
pub fn set_workers(n: usize) {
    WORKERS.store(n, std::sync::atomic::Ordering::Relaxed);
}

/// Parallel map over case indices with per-chunk reports, merged in chunk order (deterministic given the seed,
/// whatever the worker count and schedule).
///
/// The workers are plain scoped threads, NOT workers of rayon's global pool. copia itself uses that pool
/// (`Signature::generate` hashes a basis of more than 64 KiB with `par_chunks`); a rayon worker that waits for such a
/// nested job steals other queued jobs meanwhile, so a harness case running on a rayon worker could be interrupted,
/// on the same thread, by a whole other harness case. Everything the harness keeps per thread would then be shared by
/// two cases at once: the tokio runtime of `engines::block_on` (the nested `block_on` panics "Cannot start a runtime
/// from within a runtime" - a panic of the harness that was reported against `sync_files`, DESIGN 8.3) and the
/// allocation accounting of `alloc_scope`. From a plain thread the nested job is handed to the pool and the caller
/// just blocks, which is also how the CLI reaches that code (a tokio thread, not a rayon worker).
pub fn par_cases(n: u64, f: impl Fn(u64, &mut Report) + Sync) -> Report {
    use std::sync::atomic::{AtomicU64, Ordering};
    let chunk = (n / 128).clamp(1, 64);
    let nchunks = n.div_ceil(chunk);
    let run_chunk = |c: u64| {
        let mut r = Report::default();
        let lo = c * chunk;
        let hi = ((c + 1) * chunk).min(n);
        for i in lo..hi {
            // the assumption above is monitored, not trusted: a case that starts while another one is still running
            // on the same thread is a failure of the machinery (exit 2), never a verdict about copia
            if CASE_DEPTH.with(|d| d.replace(d.get() + 1)) != 0 {
                eprintln!("harness panic: a case started on a thread that is still inside another case");
                std::process::exit(2);
            }
            f(i, &mut r);
            CASE_DEPTH.with(|d| d.set(d.get() - 1));
        }
        r
    };
    let mut workers = WORKERS.load(Ordering::Relaxed);
    if workers == 0 {
        workers = std::thread::available_parallelism().map(|p| p.get()).unwrap_or(4);
    }
    let workers = workers.min(nchunks.max(1) as usize);
    let mut done: Vec<(u64, Report)> = if workers <= 1 {
        (0..nchunks).map(|c| (c, run_chunk(c))).collect()
    } else {
        let next = AtomicU64::new(0);
        std::thread::scope(|s| {
            let hs: Vec<_> = (0..workers)
                .map(|w| {
                    let (next, run_chunk) = (&next, &run_chunk);
                    std::thread::Builder::new()
                        .name(format!("vh-case-{w}"))
                        .stack_size(8 << 20)
                        .spawn_scoped(s, move || {
                            let mut mine = Vec::new();
                            loop {
                                let c = next.fetch_add(1, Ordering::Relaxed);
                                if c >= nchunks {
                                    break;
                                }
                                mine.push((c, run_chunk(c)));
                            }
                            mine
                        })
                        .expect("spawn harness worker")
                })
                .collect();
            hs.into_iter()
                .flat_map(|h| match h.join() {
                    Ok(v) => v,
                    Err(e) => std::panic::resume_unwind(e),
                })
                .collect()
        })
    };
    done.sort_by_key(|(c, _)| *c);
    let mut out = Report::default();
    for (_, r) in done {
        out.merge(r);
    }
    out
}


/// (read+write syscalls, bytes read+written) of a live process, from /proc/<pid>/io.
fn proc_io(pid: u32) -> Option<(u64, u64)> {
    let t = std::fs::read_to_string(format!("/proc/{pid}/io")).ok()?;
    let mut calls = 0u64;
    let mut bytes = 0u64;
    for l in t.lines() {
        let mut it = l.split(": ");
        let (k, v) = (it.next()?, it.next()?.trim().parse::<u64>().ok()?);
        match k {
            "syscr" | "syscw" => calls += v,
            "rchar" | "wchar" => bytes += v,
            _ => {}
        }
    }
    Some((calls, bytes))
}

/// Logical evidence of a hang, taken when a watchdog fires: over a window of about a second the process issues
/// thousands of read/write system calls and moves NOT ONE byte (a loop around a read that returns 0 at end of
/// file). A process that is merely slow on a loaded machine moves bytes or issues few calls; that is inconclusive.
pub fn spinning_without_progress(pid: u32) -> bool {
    let Some((c0, b0)) = proc_io(pid) else { return false };
    std::thread::sleep(std::time::Duration::from_millis(1200));
    let Some((c1, b1)) = proc_io(pid) else { return false };
    c1.saturating_sub(c0) > 5000 && b1 == b0
}

/// Waits for a child under a watchdog. Returns (status, timed_out, spinning); a timed-out child is killed.
pub fn wait_watchdog(child: &mut std::process::Child, timeout_s: u64) -> (Option<std::process::ExitStatus>, bool, bool) {
    let t0 = std::time::Instant::now();
    loop {
        match child.try_wait() {
            Ok(Some(s)) => return (Some(s), false, false),
            Ok(None) => {
                if t0.elapsed() > std::time::Duration::from_secs(timeout_s) {
                    let spin = spinning_without_progress(child.id());
                    let _ = child.kill();
                    let _ = child.wait();
                    return (None, true, spin);
                }
                std::thread::sleep(std::time::Duration::from_millis(3));
            }
            Err(_) => return (None, false, false),
        }
    }
}

/// After the first hang verdict of a run later watchdogs are short: the verdict is in, the rest is bookkeeping.
pub static HANG_SEEN: std::sync::atomic::AtomicBool = std::sync::atomic::AtomicBool::new(false);
pub fn watchdog_secs(normal: u64) -> u64 {
    if HANG_SEEN.load(std::sync::atomic::Ordering::Relaxed) { 8 } else { normal }
}
