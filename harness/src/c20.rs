//! C20 — codecs round-trip and reject malformed input without crashing.
use crate::c01::copia_bin;
use crate::gen::{gen_case, CLI_BS};
use crate::refs::parse_header;
use crate::util::{alloc_scope, brief, guarded, hex, par_cases, Caught, DribbleReader, Report, Rng};
use copia::{BlockSignature, Codec, Delta, DeltaOp, FrameHeader, Message, Signature, StrongHash, Sync};
use serde_json::json;
use std::io::Cursor;
use std::path::Path;
use std::time::Instant;

pub const BOUND: usize = 16 * 1024 * 1024 + 4096;

fn gen_sig(rng: &mut Rng) -> Signature {
    let n = if crate::util::tiny() { rng.range(0, 3) } else { match rng.below(5) {
        0 => 0,
        1 => 1,
        2 => rng.range(2, 40),
        3 => rng.range(40, 400),
        _ => rng.range(1000, 3000),
    } };
    let mut s = Signature::new(*rng.pick(&[0usize, 1, 512, 2048, 65536, usize::MAX, 12345]), rng.next() >> rng.below(64));
    for i in 0..n {
        let mut h = [0u8; 32];
        h.copy_from_slice(&rng.bytes(32));
        s.blocks.push(BlockSignature::new(if rng.chance(1, 10) { rng.next() as u32 } else { i as u32 }, rng.next() as u32, StrongHash::from_bytes(h)));
    }
    s
}
fn gen_delta(rng: &mut Rng) -> Delta {
    let mut h = [0u8; 32];
    h.copy_from_slice(&rng.bytes(32));
    let mut d = Delta::with_checksum(rng.next() as u32, rng.next() >> rng.below(64), rng.next() >> rng.below(64), StrongHash::from_bytes(h));
    let n = if crate::util::tiny() { rng.range(0, 3) } else { match rng.below(4) {
        0 => 0,
        1 => 1,
        2 => rng.range(2, 30),
        _ => rng.range(100, 600),
    } };
    for _ in 0..n {
        if rng.chance(1, 2) {
            d.ops.push(DeltaOp::Copy { offset: rng.next() >> rng.below(64), len: rng.next() as u32 });
        } else {
            let l = if crate::util::tiny() { rng.range(0, 12) } else { match rng.below(4) {
                0 => 0,
                1 => rng.range(1, 20),
                2 => rng.range(100, 3000),
                _ => rng.range(20_000, 90_000),
            } };
            d.ops.push(DeltaOp::Literal(rng.bytes(l)));
        }
    }
    d
}
fn gen_string(rng: &mut Rng) -> String {
    let n = if crate::util::tiny() { rng.range(0, 8) } else { match rng.below(4) {
        0 => 0,
        1 => rng.range(1, 10),
        2 => rng.range(10, 300),
        _ => rng.range(5000, 70_000),
    } };
    let alpha = ['a', 'Z', ' ', '\n', 'é', '日', '\0', '"'];
    (0..n).map(|_| *rng.pick(&alpha)).collect()
}
pub fn gen_message(rng: &mut Rng) -> Message {
    match rng.below(7) {
        0 => Message::SignatureRequest { file_id: rng.next(), block_size: rng.next() as u32 },
        1 => Message::SignatureResponse { file_id: rng.next(), signature: gen_sig(rng) },
        2 => Message::DeltaData { file_id: rng.next(), delta: gen_delta(rng) },
        3 => Message::Ack { file_id: rng.next(), success: rng.chance(1, 2), message: if rng.chance(1, 2) { Some(gen_string(rng)) } else { None } },
        4 => Message::Error { code: rng.next() as u32, message: gen_string(rng) },
        5 => Message::Ping { seq: rng.next() },
        _ => Message::Pong { seq: rng.next() },
    }
}
fn kind(m: &Message) -> &'static str {
    match m {
        Message::SignatureRequest { .. } => "SignatureRequest",
        Message::SignatureResponse { .. } => "SignatureResponse",
        Message::DeltaData { .. } => "DeltaData",
        Message::Ack { .. } => "Ack",
        Message::Error { .. } => "Error",
        Message::Ping { .. } => "Ping",
        Message::Pong { .. } => "Pong",
    }
}

fn roundtrip(seed: u64, idx: u64, rep: &mut Report) {
    let mut rng = Rng::derive(seed, 20, idx);
    rep.evaluations += 1;
    let m = gen_message(&mut rng);
    let k = kind(&m);
    // Message::encode / decode
    match guarded(|| m.encode()) {
        Caught::Ok(Ok(bytes)) => match guarded(|| Message::decode(&bytes)) {
            Caught::Ok(Ok(m2)) => {
                if m2 != m {
                    rep.violation(&format!("C20|Message|roundtrip-differs|{k}"), json!({"seed": seed, "case": idx}));
                }
            }
            Caught::Ok(Err(e)) => rep.violation(&format!("C20|Message|decode-of-encoded-failed|{k}"), json!({"seed": seed, "case": idx, "err": e.to_string()})),
            Caught::Panicked(p) => rep.violation(&format!("C20|Message|decode-panic|{k}"), json!({"seed": seed, "case": idx, "panic": p})),
        },
        Caught::Ok(Err(e)) => rep.violation(&format!("C20|Message|encode-failed|{k}"), json!({"seed": seed, "case": idx, "err": e.to_string()})),
        Caught::Panicked(p) => rep.violation(&format!("C20|Message|encode-panic|{k}"), json!({"seed": seed, "case": idx, "panic": p})),
    }
    // Codec write / read through a dribbling reader; two messages back to back
    let m_b = gen_message(&mut rng);
    let mut wire = Vec::new();
    let codec = Codec::new();
    let w = guarded(|| codec.write_message(&mut wire, &m).and_then(|()| codec.write_message(&mut wire, &m_b)));
    match w {
        Caught::Ok(Ok(())) => {
            // independent header parse of the first frame
            match parse_header(&wire) {
                None => rep.violation("C20|Codec|written-header-malformed", json!({"seed": seed, "case": idx, "head": hex(&wire[..wire.len().min(12)])})),
                Some(h) => {
                    let payload = m.encode().unwrap_or_default();
                    if h.len as usize != payload.len() || wire.len() < 12 + payload.len() || wire[12..12 + payload.len()] != payload[..] || h.flags != 0 {
                        rep.violation("C20|Codec|header-length-or-payload-mismatch", json!({"seed": seed, "case": idx, "hdr_len": h.len, "payload": payload.len()}));
                    }
                    let expect_ty = match &m {
                        Message::SignatureRequest { .. } => 1,
                        Message::SignatureResponse { .. } => 2,
                        Message::DeltaData { .. } => 3,
                        Message::Ack { .. } => 4,
                        Message::Error { .. } => 5,
                        Message::Ping { .. } => 6,
                        Message::Pong { .. } => 7,
                    };
                    if h.ty != expect_ty {
                        rep.violation("C20|Codec|header-type-mismatch", json!({"seed": seed, "case": idx}));
                    }
                }
            }
            let mut rd = DribbleReader { data: &wire, pos: 0, rng: Rng::derive(seed, 201, idx) };
            let mut c2 = Codec::new();
            for (which, want) in [("first", &m), ("second", &m_b)] {
                // under allocation accounting: the codec may hold one payload (<= 16 MiB) plus the decoded message
                let (res, st) = alloc_scope(|| guarded(|| c2.read_message(&mut rd)));
                if st.peak_live > 4 * (BOUND as isize) {
                    rep.violation(&format!("C20|Codec|memory-held-while-reading-exceeds-4x-payload-bound|{k}"), json!({"seed": seed, "case": idx, "which": which, "peak_live": st.peak_live}));
                }
                match res {
                    Caught::Ok(Ok(got)) => {
                        if &got != want {
                            rep.violation(&format!("C20|Codec|roundtrip-differs|{k}"), json!({"seed": seed, "case": idx, "which": which}));
                        }
                    }
                    Caught::Ok(Err(e)) => rep.violation(&format!("C20|Codec|read-of-written-failed|{k}"), json!({"seed": seed, "case": idx, "which": which, "err": e.to_string()})),
                    Caught::Panicked(p) => rep.violation("C20|Codec|read-panic", json!({"seed": seed, "case": idx, "panic": p})),
                }
            }
        }
        Caught::Ok(Err(e)) => {
            // only legitimate reason: payload above the bound
            let sz = m.encode().map(|b| b.len()).unwrap_or(0).max(m_b.encode().map(|b| b.len()).unwrap_or(0));
            if sz <= 16 * 1024 * 1024 {
                rep.violation("C20|Codec|write-failed", json!({"seed": seed, "case": idx, "err": e.to_string()}));
            }
        }
        Caught::Panicked(p) => rep.violation("C20|Codec|write-panic", json!({"seed": seed, "case": idx, "panic": p})),
    }
    // FrameHeader
    let mt = m.msg_type();
    let len = match rng.below(4) {
        0 => 0,
        1 => 16 * 1024 * 1024,
        _ => rng.below(16 * 1024 * 1024 + 1) as u32,
    };
    let len = if crate::util::tiny() { len % 4096 } else { len };
    let mut h = FrameHeader::new(mt, len);
    h.flags = rng.next() as u16;
    let enc = h.encode();
    match FrameHeader::decode(&enc) {
        Ok(h2) if h2 == h => {}
        other => rep.violation("C20|FrameHeader|roundtrip", json!({"seed": seed, "case": idx, "got": format!("{other:?}")})),
    }
    if &enc[..4] != b"COPA" || enc[9] != 1 || u32::from_le_bytes([enc[4], enc[5], enc[6], enc[7]]) != len {
        rep.violation("C20|FrameHeader|encoding-layout", json!({"seed": seed, "case": idx, "enc": hex(&enc)}));
    }
    // signatures and deltas as the CLI stores them (bincode)
    let s = gen_sig(&mut rng);
    let d = gen_delta(&mut rng);
    let sb = bincode::serialize(&s).unwrap_or_default();
    let db = bincode::serialize(&d).unwrap_or_default();
    if bincode::deserialize::<Signature>(&sb).ok().as_ref() != Some(&s) {
        rep.violation("C20|Signature|file-roundtrip", json!({"seed": seed, "case": idx}));
    }
    if bincode::deserialize::<Delta>(&db).ok().as_ref() != Some(&d) {
        rep.violation("C20|Delta|file-roundtrip", json!({"seed": seed, "case": idx}));
    }
    rep.distinct.insert(format!("rt|{k}"));
    rep.count(&format!("roundtrip[{k}]"), 1);
}

// ------------------------------------------------------------------ arbitrary bytes
fn judge_decode<T>(what: &str, class: &str, input: &[u8], rep: &mut Report, f: impl FnOnce() -> Result<T, String>) -> &'static str {
    let (r, st) = alloc_scope(|| guarded(f));
    rep.max("max_single_alloc_in_decode", st.max_request as u64);
    let out = match r {
        Caught::Ok(Ok(_)) => "value",
        Caught::Ok(Err(_)) => "error",
        Caught::Panicked(p) => {
            rep.violation(&format!("C20|{what}|panic"), json!({"class": class, "input": brief(input), "input_hex": hex(&input[..input.len().min(200)]), "panic": p}));
            "panic"
        }
    };
    if st.max_request > BOUND {
        rep.violation(&format!("C20|{what}|allocation-above-16MiB"), json!({"class": class, "input": brief(input), "input_hex": hex(&input[..input.len().min(200)]), "max_request": st.max_request}));
    }
    rep.count(&format!("decode[{what}|{class}]={out}"), 1);
    rep.distinct.insert(format!("{what}|{class}|{out}"));
    out
}

fn mutate(rng: &mut Rng, v: &mut Vec<u8>) -> &'static str {
    match rng.below(7) {
        0 => {
            for _ in 0..rng.range(1, 4) {
                if v.is_empty() {
                    break;
                }
                let at = rng.range(0, v.len() - 1);
                v[at] = rng.byte();
            }
            "bytes"
        }
        1 => {
            let k = rng.range(0, v.len());
            v.truncate(k);
            "truncate"
        }
        2 => {
            if v.len() >= 8 {
                // overwrite an aligned-ish 8 byte field with a huge length
                let at = rng.range(0, v.len() - 8);
                let val: u64 = *rng.pick(&[1u64 << 32, (1u64 << 32) + 1, 1u64 << 40, 1u64 << 63, u64::MAX, 16 * 1024 * 1024 + 1, 1 << 31]);
                v[at..at + 8].copy_from_slice(&val.to_le_bytes());
            }
            "huge-len"
        }
        3 => {
            if v.len() >= 2 {
                let a = rng.range(0, v.len() - 1);
                let b = rng.range(a, v.len() - 1);
                let seg = v[a..=b].to_vec();
                let to = rng.range(0, v.len());
                v.splice(to..to, seg);
            }
            "duplicate-section"
        }
        4 => {
            if v.len() >= 4 {
                let a = rng.range(0, v.len() - 2);
                let b = rng.range(a + 1, v.len() - 1);
                v[a..=b].reverse();
            }
            "reorder"
        }
        5 => {
            let extra = rng.bytes_r(1, 64);
            v.extend_from_slice(&extra);
            "append"
        }
        _ => {
            if !v.is_empty() {
                let at = rng.range(0, v.len() - 1);
                v[at] ^= 1 << rng.below(8);
            }
            "bitflip"
        }
    }
}

fn arbitrary(seed: u64, idx: u64, rep: &mut Report) {
    let mut rng = Rng::derive(seed, 202, idx);
    for _ in 0..(if crate::util::tiny() { 3 } else { 32 }) {
        rep.evaluations += 1;
        let class;
        let mut bytes: Vec<u8>;
        match rng.below(6) {
            0 => {
                bytes = rng.bytes_r(0, 200);
                class = "random";
            }
            1 => {
                // random with a valid-looking header
                bytes = rng.bytes_r(12, 100);
                bytes[..4].copy_from_slice(b"COPA");
                bytes[9] = 1;
                bytes[8] = 1 + (rng.byte() % 7);
                let l = (bytes.len() - 12) as u32;
                bytes[4..8].copy_from_slice(&l.to_le_bytes());
                class = "random-with-header";
            }
            _ => {
                let m = gen_message(&mut rng);
                let mut wire = Vec::new();
                if Codec::new().write_message(&mut wire, &m).is_err() {
                    continue;
                }
                if wire.len() > 200_000 {
                    wire.truncate(200_000);
                }
                bytes = wire;
                class = mutate(&mut rng, &mut bytes);
            }
        }
        // framed reader
        {
            let b = bytes.clone();
            judge_decode("Codec::read_message", class, &bytes, rep, move || Codec::new().read_message(&mut Cursor::new(&b)).map_err(|e| e.to_string()));
        }
        // payload decoder on the part after the header
        if bytes.len() > 12 {
            let b = bytes[12..].to_vec();
            judge_decode("Message::decode", class, &bytes[12..], rep, move || Message::decode(&b).map_err(|e| e.to_string()));
            let b = bytes[12..].to_vec();
            judge_decode("Signature-file-decode", class, &bytes[12..], rep, move || bincode::deserialize::<Signature>(&b).map_err(|e| e.to_string()));
            let b = bytes[12..].to_vec();
            judge_decode("Delta-file-decode", class, &bytes[12..], rep, move || bincode::deserialize::<Delta>(&b).map_err(|e| e.to_string()));
        }
        // header decoder + predicate both ways
        if bytes.len() >= 12 {
            let mut hb = [0u8; 12];
            hb.copy_from_slice(&bytes[..12]);
            let want = parse_header(&hb).is_some();
            let got = judge_decode("FrameHeader::decode", class, &hb, rep, move || FrameHeader::decode(&hb).map_err(|e| e.to_string()));
            if (got == "value") != want && got != "panic" {
                rep.violation("C20|FrameHeader::decode|predicate-mismatch", json!({"header": hex(&hb), "accepted": got == "value", "should_accept": want}));
            }
        }
    }
}

/// every header with one field wrong; lengths at the bound
fn header_cases() -> Vec<([u8; 12], &'static str)> {
    let good = FrameHeader::new(copia::MessageType::Ping, 8).encode();
    let mut cases: Vec<([u8; 12], &'static str)> = Vec::new();
    for ty in 0..=255u8 {
        let mut h = good;
        h[8] = ty;
        cases.push((h, "type"));
    }
    for v in 0..=255u8 {
        let mut h = good;
        h[9] = v;
        cases.push((h, "version"));
    }
    for i in 0..4 {
        for bit in 0..8 {
            let mut h = good;
            h[i] ^= 1 << bit;
            cases.push((h, "magic"));
        }
    }
    for l in [0u32, 1, 16 * 1024 * 1024 - 1, 16 * 1024 * 1024, 16 * 1024 * 1024 + 1, 1 << 31, u32::MAX] {
        let mut h = good;
        h[4..8].copy_from_slice(&l.to_le_bytes());
        cases.push((h, "length"));
    }
    for f in [1u16, 0x8000, 0xFFFF] {
        let mut h = good;
        h[10..12].copy_from_slice(&f.to_le_bytes());
        cases.push((h, "flags"));
    }
    cases
}

fn header_fields(rep: &mut Report) {
    let cases = header_cases();
    for (h, field) in cases {
        rep.evaluations += 1;
        let want = parse_header(&h).is_some();
        let got = judge_decode("FrameHeader::decode", field, &h, rep, move || FrameHeader::decode(&h).map_err(|e| e.to_string()));
        if (got == "value") != want && got != "panic" {
            rep.violation(&format!("C20|FrameHeader::decode|predicate-mismatch|{field}"), json!({"header": hex(&h), "accepted": got == "value", "should_accept": want}));
        }
        // through the codec with no body following
        let got2 = judge_decode("Codec::read_message", field, &h, rep, move || Codec::new().read_message(&mut Cursor::new(&h[..])).map_err(|e| e.to_string()));
        if !want && got2 == "value" {
            rep.violation(&format!("C20|Codec::read_message|accepted-bad-header|{field}"), json!({"header": hex(&h)}));
        }
    }
}

/// A bad header is an error WHEREVER it stands in a stream: followed by a payload and valid frames, by a valid frame
/// at once, with a valid frame embedded in its own payload, after a valid first frame, or as text in front of a valid
/// frame (a login banner). A reader that skips ahead to the next thing that looks like a frame accepts what the
/// statement says is always an error.
fn header_in_stream(rep: &mut Report) {
    let codec = Codec::new();
    let mut good = Vec::new();
    let first = Message::Ping { seq: 7 };
    let follow = Message::Ack { file_id: 9, success: true, message: Some("after".into()) };
    if codec.write_message(&mut good, &first).is_err() {
        return;
    }
    let mut good2 = Vec::new();
    if codec.write_message(&mut good2, &follow).is_err() {
        return;
    }
    let payload = good[12..].to_vec();
    let mut streams: Vec<(Vec<u8>, usize, &'static str, &'static str)> = Vec::new(); // (bytes, valid frames before the bad header, field, shape)
    for (h, field) in header_cases() {
        if parse_header(&h).is_some() {
            continue;
        }
        let mut a = h.to_vec();
        a.extend_from_slice(&payload);
        a.extend_from_slice(&good2);
        a.extend_from_slice(&good);
        streams.push((a, 0, field, "bad+payload+valid-frames"));
        let mut b = h.to_vec();
        b.extend_from_slice(&good2);
        streams.push((b, 0, field, "bad+valid-frame"));
        let mut c = good.clone();
        c.extend_from_slice(&h);
        c.extend_from_slice(&payload);
        c.extend_from_slice(&good2);
        streams.push((c, 1, field, "valid+bad+payload+valid"));
        let mut d = h.to_vec();
        d.extend_from_slice(&[0u8; 100]);
        d.extend_from_slice(&good2);
        d.extend_from_slice(&[0u8; 64]);
        streams.push((d, 0, field, "bad+padding+valid-frame"));
    }
    for banner in [&b"Welcome to host\n"[..], &b"Last login: Sat Sep 26 05:00:00 2026 from 10.0.0.1\r\n"[..], &b"\n"[..], &[0u8; 3][..], &b"COP"[..], &[0xFFu8; 4095][..], &[0x20u8; 5000][..]] {
        for n in [banner.len(), banner.len().min(11), 1] {
            let mut e = banner[..n.min(banner.len())].to_vec();
            e.extend_from_slice(&good);
            e.extend_from_slice(&good2);
            if parse_header(&e).is_none() {
                streams.push((e, 0, "magic", "text-before-valid-frame"));
            }
        }
    }
    for (bytes, before, field, shape) in streams {
        rep.evaluations += 1;
        let b2 = bytes.clone();
        let got = judge_decode("Codec::read_message", shape, &bytes, rep, move || {
            let mut c = Codec::new();
            let mut rd = Cursor::new(&b2[..]);
            for _ in 0..before {
                c.read_message(&mut rd).map_err(|e| format!("valid leading frame refused: {e}"))?;
            }
            c.read_message(&mut rd).map_err(|e| e.to_string())
        });
        if got == "value" {
            rep.violation(&format!("C20|Codec::read_message|accepted-bad-header-in-stream|{field}|{shape}"), json!({"head": hex(&bytes[..bytes.len().min(40)]), "valid_frames_before": before}));
        }
        rep.distinct.insert(format!("hdr-in-stream|{field}|{shape}"));
    }
    rep.count("bad_headers_inside_streams", 1);
}

/// bincode bodies with huge declared lengths at every Vec / String position
fn huge_lengths(seed: u64, rep: &mut Report) {
    let mut rng = Rng::derive(seed, 203, 0);
    let msgs = vec![
        Message::SignatureResponse { file_id: 1, signature: { let mut s = gen_sig(&mut rng); s.blocks.truncate(3); s } },
        Message::DeltaData { file_id: 2, delta: { let mut d = gen_delta(&mut rng); d.ops.truncate(2); d.ops.push(DeltaOp::Literal(vec![1, 2, 3])); d.ops.push(DeltaOp::Copy { offset: 1, len: 2 }); d } },
        Message::Ack { file_id: 3, success: true, message: Some("hello".into()) },
        Message::Error { code: 4, message: "boom".into() },
    ];
    for m in msgs {
        let enc = m.encode().unwrap_or_default();
        // every 8-byte window is a candidate length position
        for at in 0..enc.len().saturating_sub(7) {
            for val in [1u64 << 32, 1u64 << 40, (1u64 << 63) - 1, 1u64 << 63, u64::MAX] {
                rep.evaluations += 1;
                let mut b = enc.clone();
                b[at..at + 8].copy_from_slice(&val.to_le_bytes());
                let b2 = b.clone();
                judge_decode("Message::decode", "declared-length", &b, rep, move || Message::decode(&b2).map_err(|e| e.to_string()));
                // and framed
                let mut wire = FrameHeader::new(m.msg_type(), b.len() as u32).encode().to_vec();
                wire.extend_from_slice(&b);
                let w2 = wire.clone();
                judge_decode("Codec::read_message", "declared-length", &wire, rep, move || Codec::new().read_message(&mut Cursor::new(&w2)).map_err(|e| e.to_string()));
            }
        }
    }
}

/// Seed corpus for the coverage-guided stage: valid encodings of every kind.
pub fn dump_seeds(dir: &Path, seed: u64) {
    let _ = std::fs::create_dir_all(dir);
    let mut rng = Rng::derive(seed, 2020, 0);
    crate::util::set_tiny(true);
    for i in 0..48 {
        let m = gen_message(&mut rng);
        let mut wire = Vec::new();
        if Codec::new().write_message(&mut wire, &m).is_ok() {
            let _ = std::fs::write(dir.join(format!("msg{i}")), &wire);
            let _ = std::fs::write(dir.join(format!("payload{i}")), &wire[12..]);
        }
        let _ = std::fs::write(dir.join(format!("sig{i}")), bincode::serialize(&gen_sig(&mut rng)).unwrap_or_default());
        let _ = std::fs::write(dir.join(format!("delta{i}")), bincode::serialize(&gen_delta(&mut rng)).unwrap_or_default());
    }
    crate::util::set_tiny(false);
}

/// Replay of libFuzzer artifacts / corpus files through the ordinary oracle (allocation scope +
/// catch_unwind): only what reproduces here is reported.
pub fn replay_files(dir: &Path) -> Report {
    let mut rep = Report::default();
    let Ok(rd) = std::fs::read_dir(dir) else { return rep };
    for e in rd.flatten() {
        let Ok(bytes) = std::fs::read(e.path()) else { continue };
        rep.evaluations += 1;
        let name = e.file_name().to_string_lossy().into_owned();
        let class = if name.starts_with("crash") { "fuzz-crash" } else if name.starts_with("oom") { "fuzz-oom" } else if name.starts_with("timeout") { "fuzz-timeout" } else { "fuzz-corpus" };
        let b = bytes.clone();
        judge_decode("Message::decode", class, &bytes, &mut rep, move || Message::decode(&b).map_err(|e| e.to_string()));
        let b = bytes.clone();
        judge_decode("Codec::read_message", class, &bytes, &mut rep, move || Codec::new().read_message(&mut Cursor::new(&b)).map_err(|e| e.to_string()));
        let b = bytes.clone();
        judge_decode("Signature-file-decode", class, &bytes, &mut rep, move || bincode::deserialize::<Signature>(&b).map_err(|e| e.to_string()));
        let b = bytes.clone();
        judge_decode("Delta-file-decode", class, &bytes, &mut rep, move || bincode::deserialize::<Delta>(&b).map_err(|e| e.to_string()));
        if let Ok(d) = bincode::deserialize::<Delta>(&bytes) {
            if d.ops.len() < 64 && d.ops.iter().all(|o| o.output_len() < 1 << 16) {
                let basis = [7u8; 4096];
                for (eng, po) in [("sync", crate::engines::patch_sync(&basis, &d)), ("async", crate::engines::patch_async(&basis, &d))] {
                    match po.res {
                        crate::util::Caught::Ok(Ok(())) => {
                            if blake3::hash(&po.out).as_bytes() != d.checksum.as_bytes() {
                                rep.violation(&format!("C20|fuzz|{eng}-patch-ok-with-wrong-bytes"), json!({"file": name}));
                            }
                        }
                        crate::util::Caught::Panicked(p) => rep.violation(&format!("C20|fuzz|{eng}-patch-panic"), json!({"file": name, "panic": p})),
                        _ => {}
                    }
                }
            }
        }
    }
    rep
}

// ------------------------------------------------------------------ CLI hostile files
pub struct LimRun {
    pub code: Option<i32>,
    pub signal: Option<i32>,
    pub stderr: String,
    pub timed_out: bool,
    pub spinning: bool,
    pub wall: f64,
}
pub fn run_limited(args: &[&str], cwd: &Path, as_kib: u64, timeout_s: u64) -> LimRun {
    use std::os::unix::process::ExitStatusExt;
    use std::process::{Command, Stdio};
    let t0 = Instant::now();
    let mut cmd = Command::new("bash");
    if std::env::var("VH_NO_RLIMIT").is_ok() && !crate::c01::valgrind() {
        // sanitizer builds reserve terabytes of address space: no RLIMIT_AS in that stage
        cmd.arg("-c").arg("ulimit -c 0; exec \"$0\" \"$@\"").arg(copia_bin()).args(args);
    } else if crate::c01::valgrind() {
        // memcheck needs far more address space than the limit under test: no RLIMIT_AS in this stage
        cmd.arg("-c").arg("ulimit -c 0; exec valgrind -q --error-exitcode=97 --errors-for-leak-kinds=none --leak-check=no \"$0\" \"$@\"").arg(copia_bin()).args(args);
    } else {
        cmd.arg("-c").arg(format!("ulimit -c 0; ulimit -v {as_kib}; exec \"$0\" \"$@\"")).arg(copia_bin()).args(args);
    }
    // (one 64 MiB malloc arena per thread would eat the address-space limit under test by itself)
    cmd.current_dir(cwd).env("RUST_LOG", "off").env("MALLOC_ARENA_MAX", "2").stdin(Stdio::null()).stdout(Stdio::null()).stderr(Stdio::piped());
    let mut child = cmd.spawn().expect("spawn");
    // (stderr is a pipe: these commands print a line or two, far below a pipe buffer)
    let (status, timed_out, spinning) = crate::util::wait_watchdog(&mut child, crate::util::watchdog_secs(timeout_s));
    if spinning {
        crate::util::HANG_SEEN.store(true, std::sync::atomic::Ordering::Relaxed);
    }
    let mut stderr = String::new();
    if let Some(mut e) = child.stderr.take() {
        use std::io::Read;
        let mut b = Vec::new();
        let _ = e.read_to_end(&mut b);
        stderr = String::from_utf8_lossy(&b).into();
    }
    LimRun { code: status.and_then(|s| s.code()), signal: status.and_then(|s| s.signal()), stderr, timed_out, spinning, wall: t0.elapsed().as_secs_f64() }
}

fn put_u64(v: &mut [u8], at: usize, x: u64) {
    v[at..at + 8].copy_from_slice(&x.to_le_bytes());
}

fn hostile_files(seed: u64, idx: u64, work: &Path, rep: &mut Report) {
    let mut rng = Rng::derive(seed, 204, idx);
    let bs = *rng.pick(&CLI_BS[..4]);
    let c = gen_case(&mut rng, bs, 16 * 1024);
    if c.basis.is_empty() || c.source.is_empty() {
        return;
    }
    let Ok(sig) = Signature::generate(&mut Cursor::new(&c.basis), bs) else { return };
    let Ok(delta) = copia::CopiaSync::new().delta(Cursor::new(&c.source), &sig) else { return };
    let sigb = bincode::serialize(&sig).unwrap();
    let delb = bincode::serialize(&delta).unwrap();
    let dir = work.join(format!("h{idx}"));
    let _ = std::fs::remove_dir_all(&dir);
    std::fs::create_dir_all(&dir).unwrap();
    std::fs::write(dir.join("basis"), &c.basis).unwrap();
    std::fs::write(dir.join("source"), &c.source).unwrap();

    // (file kind, field, bytes)
    let mut files: Vec<(&'static str, String, Vec<u8>)> = Vec::new();
    // --- signature corruptions: layout block_size:u64 | file_size:u64 | nblocks:u64 | 40 B per block
    // (the signature's block size is 8 bytes on disk: values that are valid in their low 32 bits only)
    for v in [0u64, 1, 3, 1000, 1 << 31, u64::MAX, 256, 131_072, (1 << 32) + 2048, (1 << 32) + 512, (3 << 32) + 65_536, (1 << 63) + 4096, (1 << 32) + u64::from(bs as u32), 1 << 32, 65_537, (1 << 16) + 512] {
        let mut b = sigb.clone();
        put_u64(&mut b, 0, v);
        files.push(("sig", format!("block_size={v}"), b));
    }
    for v in [0u64, 1 << 32, 1 << 63, u64::MAX, (1 << 20) + 1, 1 << 26, 1 << 30] {
        let mut b = sigb.clone();
        put_u64(&mut b, 8, v);
        files.push(("sig", format!("file_size={v}"), b));
        let mut b = sigb.clone();
        put_u64(&mut b, 16, v);
        files.push(("sig", format!("block_count={v}"), b));
    }
    for cut in [0usize, 7, 8, 16, 23, 24, 24 + 3, 24 + 8, 24 + 40, sigb.len().saturating_sub(1)] {
        if cut < sigb.len() {
            files.push(("sig", format!("truncate@{cut}"), sigb[..cut].to_vec()));
        }
    }
    // per-block fields (index:u32 | weak:u32 | strong[32]); these files are fed to `copia delta` together with
    // the basis itself as the source, so that every block of the table - the damaged one included - is looked up
    {
        let nb = sig.blocks.len();
        if nb > 0 {
            let mut ks = vec![0usize, nb - 1, rng.range(0, nb - 1)];
            ks.dedup();
            for k in ks {
                let at = 24 + 40 * k;
                if at + 40 > sigb.len() {
                    continue;
                }
                for v in [nb as u32, nb as u32 + 1, u32::MAX, 1 << 31, 0, (k as u32 + 1) % nb as u32] {
                    let mut b = sigb.clone();
                    b[at..at + 4].copy_from_slice(&v.to_le_bytes());
                    files.push(("sig", format!("block_index[{k}]={v}"), b));
                }
                let mut b = sigb.clone();
                let other = 24 + 40 * ((k + 1) % nb);
                let w: [u8; 4] = [sigb[other + 4], sigb[other + 5], sigb[other + 6], sigb[other + 7]];
                b[at + 4..at + 8].copy_from_slice(&w);
                files.push(("sig", format!("block_weak[{k}]=neighbour's"), b));
                let mut b = sigb.clone();
                b[at + 8 + rng.range(0, 31)] ^= 1 << rng.below(8);
                files.push(("sig", format!("block_strong[{k}]=bitflip"), b));
            }
        }
    }
    // --- delta corruptions: block_size:u32 | source_size:u64 | basis_size:u64 | nops:u64 | ops... | checksum[32]
    for v in [0u32, 1, 3, 1000, 1 << 31, u32::MAX, 256, 131_072] {
        let mut b = delb.clone();
        b[0..4].copy_from_slice(&v.to_le_bytes());
        files.push(("delta", format!("block_size={v}"), b));
    }
    for v in [0u64, 1 << 32, 1 << 63, u64::MAX, (1 << 20) + 1, 1 << 26, 1 << 30] {
        for (name, at) in [("source_size", 4usize), ("basis_size", 12), ("op_count", 20)] {
            let mut b = delb.clone();
            put_u64(&mut b, at, v);
            files.push(("delta", format!("{name}={v}"), b));
        }
    }
    // first op fields
    if delb.len() > 28 + 4 {
        for tag in [2u32, 0xFFFF_FFFF] {
            let mut b = delb.clone();
            b[28..32].copy_from_slice(&tag.to_le_bytes());
            files.push(("delta", format!("op_tag={tag}"), b));
        }
        let tag0 = u32::from_le_bytes([delb[28], delb[29], delb[30], delb[31]]);
        if tag0 == 1 {
            for v in [1u64 << 32, 1 << 63, u64::MAX] {
                let mut b = delb.clone();
                put_u64(&mut b, 32, v);
                files.push(("delta", format!("literal_len={v}"), b));
            }
        }
    }
    // Copy.len = u32::MAX with basis_size raised to admit it
    {
        let mut d = delta.clone();
        d.ops.insert(0, DeltaOp::Copy { offset: 0, len: u32::MAX });
        d.basis_size = u64::from(u32::MAX);
        files.push(("delta", "copy_len=u32max+basis_size".into(), bincode::serialize(&d).unwrap()));
        let mut d = delta.clone();
        d.ops.insert(0, DeltaOp::Copy { offset: 0, len: 1 << 30 });
        d.basis_size = 1 << 30;
        files.push(("delta", "copy_len=1GiB+basis_size".into(), bincode::serialize(&d).unwrap()));
    }
    // zero-length copy ops (copia's own encoder never emits one)
    {
        let mut d = delta.clone();
        d.ops.insert(0, DeltaOp::Copy { offset: 0, len: 0 });
        files.push(("delta", "copy_len=0-inserted".into(), bincode::serialize(&d).unwrap()));
        let mut d = delta.clone();
        if let Some(i) = d.ops.iter().position(DeltaOp::is_copy) {
            if let DeltaOp::Copy { len, .. } = &mut d.ops[i] {
                *len = 0;
            }
            files.push(("delta", "copy_len=0-existing".into(), bincode::serialize(&d).unwrap()));
        }
        let mut d = delta.clone();
        d.ops.push(DeltaOp::Literal(Vec::new()));
        files.push(("delta", "literal_len=0-appended".into(), bincode::serialize(&d).unwrap()));
    }
    for cut in [0usize, 3, 4, 12, 20, 27, 28, 31, 32, 40, delb.len().saturating_sub(33), delb.len().saturating_sub(1)] {
        if cut < delb.len() {
            files.push(("delta", format!("truncate@{cut}"), delb[..cut].to_vec()));
        }
    }
    // a few random mutations
    for _ in 0..6 {
        let mut b = if rng.chance(1, 2) { sigb.clone() } else { delb.clone() };
        let is_sig = b.len() == sigb.len() && b == sigb;
        let cls = mutate(&mut rng, &mut b);
        files.push((if is_sig { "sig" } else { "delta" }, format!("mutate:{cls}"), b));
    }

    for (kindf, field, bytes) in files {
        rep.evaluations += 1;
        let fname = if kindf == "sig" { "h.sig" } else { "h.delta" };
        std::fs::write(dir.join(fname), &bytes).unwrap();
        let src_name = if field.starts_with("block_index") || field.starts_with("block_weak") || field.starts_with("block_strong") { "basis" } else { "source" };
        let r = if kindf == "sig" { run_limited(&["delta", src_name, "h.sig", "-o", "o.delta"], &dir, 2 * 1024 * 1024, 60) } else { run_limited(&["patch", "basis", "h.delta", "-o", "o.out"], &dir, 2 * 1024 * 1024, 60) };
        let fed: &[u8] = if src_name == "basis" { &c.basis } else { &c.source };
        let fclass: String = field.split(['=', '@', ':', '[']).next().unwrap_or("").to_string();
        let ctx = json!({"seed": seed, "case": idx, "file": kindf, "field": field, "bs": bs, "file_hex_head": hex(&bytes[..bytes.len().min(64)])});
        let outcome = if r.code == Some(97) && crate::c01::valgrind() {
            rep.violation(&format!("C20|cli|valgrind-memcheck-error|{kindf}:{fclass}"), json!({"ctx": ctx, "stderr": r.stderr.chars().take(600).collect::<String>()}));
            "valgrind-error"
        } else if r.spinning {
            rep.violation(&format!("C20|cli|copia-{}|hang-spinning-without-progress|{kindf}:{fclass}", if kindf == "sig" { "delta" } else { "patch" }), json!({"ctx": ctx}));
            "hang"
        } else if r.timed_out {
            rep.inconclusive += 1;
            rep.count("cli_timeouts", 1);
            "timeout"
        } else if let Some(s) = r.signal {
            rep.violation(&format!("C20|cli|copia-{}|signal-{s}|{kindf}:{fclass}", if kindf == "sig" { "delta" } else { "patch" }), json!({"ctx": ctx, "stderr": r.stderr.chars().take(400).collect::<String>()}));
            "signal"
        } else if r.code == Some(0) {
            // success is allowed only with a correct result
            if kindf == "delta" {
                // patch succeeded: output must hash to the checksum stored in the (possibly mutated) file
                let ok = bincode::deserialize::<Delta>(&bytes).ok().map(|d| std::fs::read(dir.join("o.out")).map(|o| blake3::hash(&o).as_bytes() == d.checksum.as_bytes()).unwrap_or(false)).unwrap_or(false);
                if !ok {
                    rep.violation("C20|cli|copia-patch|exit0-wrong-result", json!({"ctx": ctx}));
                }
            } else {
                // delta succeeded: applying it to the basis must give the source, or fail cleanly (a corrupted signature may describe another basis)
                let ok = std::fs::read(dir.join("o.delta")).ok().and_then(|b| bincode::deserialize::<Delta>(&b).ok()).map(|d| d.source_size == fed.len() as u64 && d.checksum.as_bytes() == blake3::hash(fed).as_bytes()).unwrap_or(false);
                if !ok {
                    rep.violation("C20|cli|copia-delta|exit0-wrong-result", json!({"ctx": ctx}));
                }
            }
            "exit0"
        } else if r.stderr.contains("Error") {
            "reported-error"
        } else {
            rep.violation(&format!("C20|cli|nonzero-without-error-line|{kindf}:{fclass}"), json!({"ctx": ctx, "code": r.code, "stderr": r.stderr.chars().take(400).collect::<String>()}));
            "nonzero-silent"
        };
        rep.count(&format!("cli[{kindf}:{fclass}]={outcome}"), 1);
        rep.distinct.insert(format!("cli|{kindf}:{fclass}|{outcome}"));
        rep.max("max_cli_wall_ms", (r.wall * 1000.0) as u64);
    }
    // CLI <-> library round trip through files (valid inputs)
    std::fs::write(dir.join("lib.sig"), &sigb).unwrap();
    let r = run_limited(&["delta", "source", "lib.sig", "-o", "cli.delta"], &dir, 2 * 1024 * 1024, 60);
    rep.evaluations += 1;
    let ok = r.code == Some(0) && std::fs::read(dir.join("cli.delta")).ok().and_then(|b| bincode::deserialize::<Delta>(&b).ok()).as_ref() == Some(&delta);
    if !ok {
        rep.violation("C20|cli|library-signature-file-not-consumed-identically", json!({"seed": seed, "case": idx, "code": r.code, "signal": r.signal, "stderr": r.stderr.chars().take(300).collect::<String>()}));
    }
    std::fs::write(dir.join("lib.delta"), &delb).unwrap();
    let r = run_limited(&["patch", "basis", "lib.delta", "-o", "cli.out"], &dir, 2 * 1024 * 1024, 60);
    if !(r.code == Some(0) && std::fs::read(dir.join("cli.out")).ok().as_deref() == Some(&c.source[..])) {
        rep.violation("C20|cli|library-delta-file-not-applied-identically", json!({"seed": seed, "case": idx, "code": r.code, "signal": r.signal, "stderr": r.stderr.chars().take(300).collect::<String>()}));
    }
    rep.count("cli_valid_roundtrips", 1);
    rep.max("control_valid_run_wall_ms", (r.wall * 1000.0) as u64);
    let _ = std::fs::remove_dir_all(&dir);
}

/// Signature and delta FILES larger than 2 MiB written by the CLI (a signature of tens of thousands of blocks, a
/// delta that is mostly new data) must be the library's encoding, byte for byte, and must be read back.
fn cli_big_outputs(seed: u64, idx: u64, work: &Path, rep: &mut Report) {
    let mut rng = Rng::derive(seed, 2020, idx);
    let dir = work.join(format!("big{idx}"));
    let _ = std::fs::remove_dir_all(&dir);
    std::fs::create_dir_all(&dir).unwrap();
    rep.evaluations += 1;
    let nblocks = rng.range(53_000, 60_000);
    let tail = rng.range(0, 511);
    let basis = rng.bytes(nblocks * 512 + tail);
    std::fs::write(dir.join("basis"), &basis).unwrap();
    let r = run_limited(&["signature", "basis", "-b", "512", "-o", "big.sig"], &dir, 4 * 1024 * 1024, 120);
    let want = Signature::generate(&mut Cursor::new(&basis), 512).ok().and_then(|s| bincode::serialize(&s).ok());
    let got = std::fs::read(dir.join("big.sig")).ok();
    rep.max("max_cli_signature_file_bytes", got.as_ref().map_or(0, |g| g.len() as u64));
    if r.code != Some(0) || got.is_none() || got != want {
        rep.violation("C20|cli|signature-file-over-2MiB-differs-from-library-encoding", json!({"seed": seed, "case": idx, "code": r.code, "signal": r.signal, "file_len": got.as_ref().map(Vec::len), "want_len": want.as_ref().map(Vec::len), "stderr": r.stderr.chars().take(300).collect::<String>()}));
    }
    // a source that is mostly new data against that signature: the delta file exceeds 2 MiB as well
    let mut source = basis[..basis.len().min(200_000)].to_vec();
    let extra_len = rng.range(2_200_000, 3_500_000);
    source.extend_from_slice(&rng.bytes(extra_len));
    std::fs::write(dir.join("source"), &source).unwrap();
    if let Some(w) = &want {
        std::fs::write(dir.join("lib.sig"), w).unwrap();
        let r = run_limited(&["delta", "source", "lib.sig", "-o", "big.delta"], &dir, 4 * 1024 * 1024, 120);
        let gotd = std::fs::read(dir.join("big.delta")).ok();
        rep.max("max_cli_delta_file_bytes", gotd.as_ref().map_or(0, |g| g.len() as u64));
        let ok = r.code == Some(0) && gotd.as_ref().and_then(|b| bincode::deserialize::<Delta>(b).ok()).map(|d| d.source_size == source.len() as u64 && d.checksum.as_bytes() == blake3::hash(&source).as_bytes()).unwrap_or(false);
        if !ok {
            rep.violation("C20|cli|delta-file-over-2MiB-not-decodable-to-the-source's-delta", json!({"seed": seed, "case": idx, "code": r.code, "signal": r.signal, "file_len": gotd.as_ref().map(Vec::len), "stderr": r.stderr.chars().take(300).collect::<String>()}));
        } else {
            let r = run_limited(&["patch", "basis", "big.delta", "-o", "big.out"], &dir, 4 * 1024 * 1024, 120);
            if !(r.code == Some(0) && std::fs::read(dir.join("big.out")).ok().as_deref() == Some(&source[..])) {
                rep.violation("C20|cli|delta-file-over-2MiB-not-applied", json!({"seed": seed, "case": idx, "code": r.code, "stderr": r.stderr.chars().take(300).collect::<String>()}));
            }
        }
    }
    rep.distinct.insert("cli|outputs-over-2MiB".into());
    rep.count("cli_big_output_cases", 1);
    let _ = std::fs::remove_dir_all(&dir);
}

pub fn run(seed: u64, thorough: bool, cases: Option<u64>, work: &Path, stage: &str) -> Report {
    let mut rep = Report::default();
    if stage == "cli" || stage == "all" {
        rep.merge(par_cases(if thorough { 12 } else { 2 }, |i, r| cli_big_outputs(seed, i, work, r)));
    }
    if stage == "lib" || stage == "all" {
        let n = cases.unwrap_or(if thorough { 60_000 } else { 5000 });
        rep.merge(par_cases(n, |i, r| roundtrip(seed, i, r)));
        if crate::util::tiny() {
            rep.merge(par_cases(n, |i, r| arbitrary(seed, i, r)));
        } else {
            rep.merge(par_cases(if thorough { 60_000 } else { 6000 }, |i, r| arbitrary(seed, i, r)));
            header_fields(&mut rep);
            header_in_stream(&mut rep);
            huge_lengths(seed, &mut rep);
        }
    }
    if stage == "cli" || stage == "all" {
        let n = if thorough { 30 } else { 2 };
        let n = cases.map_or(n, |c| c.min(n));
        rep.merge(par_cases(n, |i, r| hostile_files(seed, i, work, r)));
    }
    rep
}
