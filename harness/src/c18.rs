//! C18 — the three-way reconcile decision is exactly the documented table.
use crate::bin::reconcile::{reconcile, reconcile_path, Action, ConflictKind, FileType, Fingerprint, FpMap};
use crate::refs::{mirror, table, RAct};
use crate::util::{guarded, par_cases, Caught, Report, Rng};
use serde_json::json;
use std::path::PathBuf;

fn conv(a: Action) -> RAct {
    match a {
        Action::Noop => RAct::Noop,
        Action::PropagateAtoB => RAct::AtoB,
        Action::PropagateBtoA => RAct::BtoA,
        Action::ConvergeIdentical => RAct::Converge,
        Action::DeleteA => RAct::DeleteA,
        Action::DeleteB => RAct::DeleteB,
        Action::Conflict(ConflictKind::BothChanged) => RAct::ConflictBoth,
        Action::Conflict(ConflictKind::DeleteVsModify) => RAct::ConflictDelMod,
    }
}

/// class value: None or (digest class 0..3, type 0..2)
type Cls = Option<(u8, u8)>;
fn all_cls() -> Vec<Cls> {
    let mut v = vec![None];
    for d in 0..3 {
        for t in 0..2 {
            v.push(Some((d, t)));
        }
    }
    v
}
fn fp_of(c: Cls, digests: &[[u8; 32]; 3]) -> Option<Fingerprint> {
    c.map(|(d, t)| Fingerprint { blake3: digests[d as usize], ftype: if t == 0 { FileType::File } else { FileType::Symlink } })
}
fn call(a: Option<Fingerprint>, b: Option<Fingerprint>, z: Option<Fingerprint>) -> Result<RAct, String> {
    match guarded(|| reconcile_path(a, b, z)) {
        Caught::Ok(x) => Ok(conv(x)),
        Caught::Panicked(m) => Err(m),
    }
}

fn quotient(rep: &mut Report) {
    let fixed: [[u8; 32]; 3] = [[1; 32], [2; 32], [3; 32]];
    let cls = all_cls();
    for &a in &cls {
        for &b in &cls {
            for &z in &cls {
                rep.evaluations += 1;
                let want = table(a, b, z);
                let ctx = json!({"a": a, "b": b, "base": z});
                match call(fp_of(a, &fixed), fp_of(b, &fixed), fp_of(z, &fixed)) {
                    Err(m) => rep.violation("C18|reconcile_path|panic", json!({"ctx": ctx, "panic": m})),
                    Ok(got) => {
                        if got != want {
                            rep.violation("C18|reconcile_path|differs-from-table", json!({"ctx": ctx, "got": format!("{got:?}"), "want": format!("{want:?}")}));
                        }
                        if z.is_none() && matches!(got, RAct::DeleteA | RAct::DeleteB) {
                            rep.violation("C18|reconcile_path|delete-without-base", json!({"ctx": ctx}));
                        }
                        match call(fp_of(b, &fixed), fp_of(a, &fixed), fp_of(z, &fixed)) {
                            Ok(m) if m == mirror(got) => {}
                            other => rep.violation("C18|reconcile_path|not-mirror-symmetric", json!({"ctx": ctx, "got": format!("{got:?}"), "mirrored_call": format!("{other:?}")})),
                        }
                        if got != RAct::Noop {
                            rep.distinct.insert(format!("{a:?}|{b:?}|{z:?}"));
                            if rep.evaluations % 37 == 0 {
                                rep.sample(json!({"a": a, "b": b, "base": z, "decision": format!("{got:?}")}), 6);
                            }
                        }
                        rep.count(&format!("quotient_action[{got:?}]"), 1);
                    }
                }
            }
        }
    }
    rep.count("quotient_triples", (cls.len() * cls.len() * cls.len()) as u64);
}

fn data_independence(seed: u64, idx: u64, rep: &mut Report) {
    let mut rng = Rng::derive(seed, 18, idx);
    rep.evaluations += 1;
    let cls = all_cls();
    let (a, b, z) = (*rng.pick(&cls), *rng.pick(&cls), *rng.pick(&cls));
    // injective random digests, sometimes nearly equal
    let mut d0 = [0u8; 32];
    d0.copy_from_slice(&rng.bytes(32));
    let mut d1 = d0;
    let mut d2 = d0;
    match rng.below(4) {
        0 => {
            d1[31] ^= 1;
            d2[31] ^= 2;
        }
        1 => {
            d1[0] ^= 0x80;
            d2[15] ^= 0x10;
        }
        2 => {
            d1[rng.below(32) as usize] ^= 1 << rng.below(8);
            d2.copy_from_slice(&rng.bytes(32));
            if d2 == d0 || d2 == d1 {
                d2[3] ^= 0xFF;
                if d2 == d0 || d2 == d1 {
                    d2[4] ^= 0xFF;
                }
            }
        }
        _ => {
            d1.copy_from_slice(&rng.bytes(32));
            d2.copy_from_slice(&rng.bytes(32));
        }
    }
    if rng.chance(1, 4) {
        // digests that mean something outside the table: BLAKE3 of the empty input, of one zero byte, all zeros, all ones
        let special: [[u8; 32]; 4] = [*blake3::hash(b"").as_bytes(), *blake3::hash(&[0u8]).as_bytes(), [0u8; 32], [0xFFu8; 32]];
        let k = rng.below(3) as usize;
        let v = special[rng.below(4) as usize];
        match k {
            0 => d0 = v,
            1 => d1 = v,
            _ => d2 = v,
        }
        rep.count("cases_with_a_real_world_special_digest", 1);
    }
    if d0 == d1 || d1 == d2 || d0 == d2 {
        return;
    }
    let ds = [d0, d1, d2];
    let want = table(a, b, z);
    match call(fp_of(a, &ds), fp_of(b, &ds), fp_of(z, &ds)) {
        Ok(got) if got == want => {}
        other => rep.violation("C18|reconcile_path|depends-on-digest-values", json!({"a": a, "b": b, "base": z, "digests": ds.iter().map(|d| crate::util::hex(d)).collect::<Vec<_>>(), "got": format!("{other:?}"), "want": format!("{want:?}")})),
    }
    rep.count("data_independence_triples", 1);
}

/// all assignments of {absent, x, y} to three paths for a, b, base; both trust settings
fn maps(rep: &mut Report) {
    use std::os::unix::ffi::OsStringExt;
    let raw = |b: &[u8]| PathBuf::from(std::ffi::OsString::from_vec(b.to_vec()));
    // the decision must not depend on what a path is CALLED: ordering traps, names that differ in case only, names
    // that look like the tool's own staging files or conflict-copies, names that are not UTF-8
    let families: Vec<[PathBuf; 3]> = vec![
        [PathBuf::from("a/p"), PathBuf::from("b"), PathBuf::from("a.q")],
        [PathBuf::from("README"), PathBuf::from("readme"), PathBuf::from("Readme")],
        [PathBuf::from("f.copia-tmp"), PathBuf::from("d/g.copia-tmp"), PathBuf::from("f")],
        [PathBuf::from("f"), PathBuf::from("f.conflict-h-0123456789ab"), PathBuf::from("f.conflict-h-0123456789ab-1")],
        [raw(b"caf\xe9"), raw(b"caf\xe8"), PathBuf::from("cafe")],
        [PathBuf::from("a"), PathBuf::from("a/b"), PathBuf::from("a.b")],
        [PathBuf::from(".copia"), PathBuf::from(".copiaignore"), PathBuf::from("-")],
    ];
    for paths in &families {
        maps_family(paths, rep);
    }
}

fn maps_family(paths: &[PathBuf; 3], rep: &mut Report) {
    let vals: [Option<u8>; 3] = [None, Some(1), Some(2)];
    let fp = |v: u8| Fingerprint { blake3: [v; 32], ftype: FileType::File };
    let total = 3usize.pow(9);
    for code in 0..total {
        let mut c = code;
        let mut asg = [[None; 3]; 3]; // [map][path]
        for m in 0..3 {
            for p in 0..3 {
                asg[m][p] = vals[c % 3];
                c /= 3;
            }
        }
        let mk = |m: usize| -> FpMap { (0..3).filter_map(|p| asg[m][p].map(|v| (paths[p].clone(), fp(v)))).collect() };
        let (ma, mb, mz) = (mk(0), mk(1), mk(2));
        for trust in [true, false] {
            rep.evaluations += 1;
            let got = match guarded(|| reconcile(&ma, &mb, &mz, trust)) {
                Caught::Ok(v) => v,
                Caught::Panicked(m) => {
                    rep.violation("C18|reconcile|panic", json!({"code": code, "panic": m}));
                    continue;
                }
            };
            // expected: non-Noop per-path decisions over the sorted union of a and b
            let mut keys: Vec<&PathBuf> = ma.keys().chain(mb.keys()).collect();
            keys.sort();
            keys.dedup();
            let mut want: Vec<(PathBuf, RAct)> = Vec::new();
            for k in keys {
                let pi = paths.iter().position(|p| p == k).unwrap();
                let w = table(asg[0][pi], asg[1][pi], if trust { asg[2][pi] } else { None });
                if w != RAct::Noop {
                    want.push((k.clone(), w));
                }
            }
            let gotc: Vec<(PathBuf, RAct)> = got.iter().map(|(p, a)| (p.clone(), conv(*a))).collect();
            if gotc != want {
                rep.violation(
                    if trust { "C18|reconcile|map-differs-from-table|trusted" } else { "C18|reconcile|map-differs-from-table|untrusted" },
                    json!({"a": format!("{:?}", asg[0]), "b": format!("{:?}", asg[1]), "base": format!("{:?}", asg[2]), "trust": trust, "got": format!("{gotc:?}"), "want": format!("{want:?}")}),
                );
            }
            if !trust && gotc.iter().any(|(_, a)| matches!(a, RAct::DeleteA | RAct::DeleteB | RAct::ConflictDelMod)) {
                rep.violation("C18|reconcile|untrusted-base-used", json!({"code": code}));
            }
            if !want.is_empty() {
                rep.count("maps_nontrivial", 1);
            }
        }
    }
    rep.count("map_assignments", total as u64 * 2);
}

/// Whole-map decisions over LARGE trees (4096..9000 paths a side): a planner that splits the key space, batches or
/// parallelises must still give exactly the per-path decisions for the sorted union - including paths that only one
/// side has and that sort before, between and after everything the other side has - and must be mirror-symmetric.
fn big_maps(seed: u64, idx: u64, rep: &mut Report) {
    let mut rng = Rng::derive(seed, 181, idx);
    let fp = |v: u8| Fingerprint { blake3: [v; 32], ftype: FileType::File };
    let n = *rng.pick(&[4095usize, 4096, 4097, 4200, 6000, 8192, 9000]);
    let mut universe: Vec<PathBuf> = (0..n).map(|i| PathBuf::from(format!("d{:03}/f{:05}", i % 97, i))).collect();
    // names that sort before / after every generated path, and between two of them
    let outliers = ["AUTHORS", "0-first", "CHANGES", "d000/f", "d050/zz", "zz-last", "~", "d096/zzzz"];
    for o in outliers {
        universe.push(PathBuf::from(o));
    }
    let vals: [Option<u8>; 3] = [None, Some(1), Some(2)];
    let mut asg: Vec<[Option<u8>; 3]> = Vec::with_capacity(universe.len());
    for i in 0..universe.len() {
        let outlier = i >= n;
        // most paths: in sync with the base; a few per cent: every other combination
        let (a, b, z) = if !outlier && rng.below(100) < 94 { (Some(1), Some(1), Some(1)) } else { (*rng.pick(&vals), *rng.pick(&vals), *rng.pick(&vals)) };
        asg.push([a, b, z]);
    }
    // the first of the outliers is always "B only", the last always "A only": one side's smallest / largest path is missing on the other
    asg[n] = [None, Some(2), *rng.pick(&vals)];
    asg[n + 5] = [Some(2), None, *rng.pick(&vals)];
    let mk = |m: usize| -> FpMap { universe.iter().zip(asg.iter()).filter_map(|(p, v)| v[m].map(|x| (p.clone(), fp(x)))).collect() };
    let (ma, mb, mz) = (mk(0), mk(1), mk(2));
    for trust in [true, false] {
        for mirrored in [false, true] {
            rep.evaluations += 1;
            let (xa, xb) = if mirrored { (&mb, &ma) } else { (&ma, &mb) };
            let got = match guarded(|| reconcile(xa, xb, &mz, trust)) {
                Caught::Ok(v) => v,
                Caught::Panicked(m) => {
                    rep.violation("C18|reconcile|panic", json!({"seed": seed, "case": idx, "panic": m}));
                    continue;
                }
            };
            let mut want: Vec<(PathBuf, RAct)> = Vec::new();
            let mut order: Vec<usize> = (0..universe.len()).collect();
            order.sort_by(|x, y| universe[*x].cmp(&universe[*y]));
            for i in order {
                let (a, b) = if mirrored { (asg[i][1], asg[i][0]) } else { (asg[i][0], asg[i][1]) };
                if a.is_none() && b.is_none() {
                    continue;
                }
                let w = table(a, b, if trust { asg[i][2] } else { None });
                if w != RAct::Noop {
                    want.push((universe[i].clone(), w));
                }
            }
            let gotc: Vec<(PathBuf, RAct)> = got.iter().map(|(p, a)| (p.clone(), conv(*a))).collect();
            if gotc != want {
                let missing: Vec<String> = want.iter().filter(|w| !gotc.contains(w)).take(4).map(|w| format!("{w:?}")).collect();
                let extra: Vec<String> = gotc.iter().filter(|g| !want.contains(g)).take(4).map(|g| format!("{g:?}")).collect();
                rep.violation("C18|reconcile|map-differs-from-table|large-tree", json!({"seed": seed, "case": idx, "paths": n, "trust": trust, "mirrored": mirrored, "missing": missing, "unexpected": extra, "got_len": gotc.len(), "want_len": want.len()}));
            }
        }
    }
    rep.distinct.insert(format!("big-map|n{n}"));
    rep.count("large_tree_maps", 1);
}

pub fn run(seed: u64, thorough: bool, cases: Option<u64>) -> Report {
    let mut rep = Report::default();
    quotient(&mut rep);
    if !crate::util::tiny() {
        maps(&mut rep);
    }
    let n = cases.unwrap_or(if thorough { 200_000 } else { 20_000 });
    rep.merge(par_cases(n, |i, r| data_independence(seed, i, r)));
    if !crate::util::tiny() {
        rep.merge(par_cases(if thorough { 200 } else { 24 }, |i, r| big_maps(seed, i, r)));
    }
    rep
}
