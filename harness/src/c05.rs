//! C05 — patch never reports success on wrong bytes (fault enumeration over (basis, delta)).
use crate::c01::run_copia;
use crate::engines::*;
use crate::gen::{gen_case, CLI_BS};
use crate::util::{brief, par_cases, Caught, Report, Rng};
use copia::{Delta, DeltaOp, StrongHash};
use serde_json::json;
use std::path::Path;

#[derive(Clone, Debug)]
pub struct Fault {
    pub class: &'static str,
    pub desc: String,
}

fn some_copy(d: &Delta, rng: &mut Rng) -> Option<usize> {
    let idx: Vec<usize> = d.ops.iter().enumerate().filter(|(_, o)| o.is_copy()).map(|(i, _)| i).collect();
    if idx.is_empty() {
        None
    } else {
        Some(*rng.pick(&idx))
    }
}
fn some_lit(d: &Delta, rng: &mut Rng) -> Option<usize> {
    let idx: Vec<usize> = d.ops.iter().enumerate().filter(|(_, o)| o.is_literal()).map(|(i, _)| i).collect();
    if idx.is_empty() {
        None
    } else {
        Some(*rng.pick(&idx))
    }
}

/// Apply one random fault; returns None if the chosen fault is not applicable.
pub fn apply_fault(rng: &mut Rng, basis: &mut Vec<u8>, d: &mut Delta, other_basis: &[u8]) -> Option<Fault> {
    let which = rng.below(24);
    let f = |class: &'static str, desc: String| Some(Fault { class, desc });
    match which {
        0 => {
            *basis = other_basis.to_vec();
            f("basis-other", String::new())
        }
        1 => {
            if basis.is_empty() {
                return None;
            }
            let k = rng.range(0, basis.len() - 1);
            basis.truncate(k);
            f("basis-truncate", format!("to {k}"))
        }
        2 => {
            let k = rng.range(1, 5000);
            let ext = rng.bytes(k);
            basis.extend_from_slice(&ext);
            f("basis-extend", format!("+{k}"))
        }
        3 => {
            if basis.is_empty() {
                return None;
            }
            let n = rng.range(1, 3);
            for _ in 0..n {
                let at = rng.range(0, basis.len() - 1);
                basis[at] ^= 1 << rng.below(8);
            }
            f("basis-bitflip", format!("{n} bits"))
        }
        4 => {
            let i = some_copy(d, rng)?;
            if let DeltaOp::Copy { offset, .. } = &mut d.ops[i] {
                let nv = match rng.below(6) {
                    0 => u64::MAX,
                    1 => offset.wrapping_add(1),
                    2 => offset.wrapping_sub(1),
                    3 => d.basis_size,
                    4 => rng.next(),
                    _ => rng.below(d.basis_size.saturating_add(2)),
                };
                *offset = nv;
                return f("copy-offset", format!("op{i} -> {nv}"));
            }
            None
        }
        5 => {
            let i = some_copy(d, rng)?;
            if let DeltaOp::Copy { len, .. } = &mut d.ops[i] {
                let nv = match rng.below(5) {
                    0 => 0,
                    1 => len.wrapping_add(1),
                    2 => len.wrapping_sub(1),
                    3 => 1 << 20,
                    _ => rng.below(200_000) as u32,
                };
                *len = nv;
                return f("copy-len", format!("op{i} -> {nv}"));
            }
            None
        }
        6 => {
            // len = a few MiB with basis_size raised to match (bounded so the test stays cheap)
            let i = some_copy(d, rng)?;
            if let DeltaOp::Copy { offset, len } = &mut d.ops[i] {
                *len = 3 << 20;
                d.basis_size = offset.saturating_add(u64::from(*len)).max(d.basis_size);
                return f("copy-len-big+basis_size", format!("op{i}"));
            }
            None
        }
        7 => {
            if d.ops.is_empty() {
                return None;
            }
            let i = rng.range(0, d.ops.len() - 1);
            d.ops.remove(i);
            f("op-drop", format!("op{i}"))
        }
        8 => {
            if d.ops.is_empty() {
                return None;
            }
            let i = rng.range(0, d.ops.len() - 1);
            let o = d.ops[i].clone();
            d.ops.insert(i, o);
            f("op-duplicate", format!("op{i}"))
        }
        9 => {
            if d.ops.len() < 2 {
                return None;
            }
            let i = rng.range(0, d.ops.len() - 2);
            d.ops.swap(i, i + 1);
            f("op-reorder", format!("op{i}<->op{}", i + 1))
        }
        10 => {
            let i = some_lit(d, rng)?;
            if let DeltaOp::Literal(v) = &mut d.ops[i] {
                if v.is_empty() {
                    return None;
                }
                let at = rng.range(0, v.len() - 1);
                v[at] ^= 1 << rng.below(8);
                return f("literal-bitflip", format!("op{i}@{at}"));
            }
            None
        }
        11 => {
            let i = some_lit(d, rng)?;
            if let DeltaOp::Literal(v) = &mut d.ops[i] {
                match rng.below(3) {
                    0 => {
                        v.pop();
                    }
                    1 => v.push(rng.byte()),
                    _ => v.clear(),
                }
                return f("literal-resize", format!("op{i}"));
            }
            None
        }
        12 => {
            d.source_size = match rng.below(9) {
                0 => 0,
                1 => d.source_size.wrapping_add(1),
                2 => u64::MAX,
                3 => rng.next(),
                4 => d.source_size.saturating_sub(1),
                5 => d.source_size.wrapping_mul(2),
                6 => d.source_size.wrapping_add(rng.range(2, 200_000) as u64),
                // overstated into the ranges where an implementation may start to pre-size or pre-allocate
                _ => *rng.pick(&[65_536u64, 1 << 20, (1 << 20) + 1, 3 << 20, 1 << 24, 1 << 30, 1 << 32]),
            };
            f("source_size", format!("{}", d.source_size))
        }
        13 => {
            d.basis_size = match rng.below(5) {
                0 => 0,
                1 => d.basis_size.wrapping_add(1),
                2 => d.basis_size.wrapping_sub(1),
                3 => u64::MAX,
                _ => rng.next(),
            };
            f("basis_size", format!("{}", d.basis_size))
        }
        14 => {
            d.block_size = match rng.below(5) {
                0 => 0,
                1 => 1,
                2 => 1000,
                3 => u32::MAX,
                _ => d.block_size.wrapping_mul(2),
            };
            f("block_size", format!("{}", d.block_size))
        }
        15 => {
            let mut c = *d.checksum.as_bytes();
            c[rng.below(32) as usize] ^= 1 << rng.below(8);
            d.checksum = StrongHash::from_bytes(c);
            f("checksum-bitflip", String::new())
        }
        16 => {
            d.checksum = StrongHash::zero();
            f("checksum-zero", String::new())
        }
        17 => {
            // insert a foreign op
            let at = rng.range(0, d.ops.len());
            let op = if rng.chance(1, 2) { DeltaOp::Literal(rng.bytes_r(1, 40)) } else { DeltaOp::Copy { offset: rng.below(d.basis_size.saturating_add(1)), len: rng.below(5000) as u32 } };
            d.ops.insert(at, op);
            f("op-insert", format!("at{at}"))
        }
        18 => {
            // checksum of the WRONG bytes that the faulted delta will produce is not known to an attacker
            // but a "consistent" tamper is: change a literal and recompute nothing -> covered; here: swap source for basis hash
            d.checksum = StrongHash::compute(basis);
            f("checksum-of-basis", String::new())
        }
        19 => {
            let i = some_copy(d, rng)?;
            if let DeltaOp::Copy { offset, len } = &mut d.ops[i] {
                // move the copy to another block-aligned place inside the basis
                let bs = u64::from(d.block_size.max(1));
                let nb = d.basis_size / bs;
                if nb < 2 {
                    return None;
                }
                let mut no = rng.below(nb).saturating_mul(bs);
                if no == *offset {
                    no = no.wrapping_add(bs) % nb.saturating_mul(bs).max(1);
                }
                if no.saturating_add(u64::from(*len)) > d.basis_size {
                    return None;
                }
                *offset = no;
                return f("copy-offset-other-block", format!("op{i} -> {no}"));
            }
            None
        }
        20 => {
            basis.clear();
            f("basis-empty", String::new())
        }
        22 => {
            // the same bit flipped in two (or four) checksum bytes a machine word apart: differences that cancel
            // in a comparison which folds words together instead of OR-ing them
            let mut c = *d.checksum.as_bytes();
            let i = rng.below(8) as usize;
            let bit = 1u8 << rng.below(8);
            let lanes: &[usize] = match rng.below(4) {
                0 => &[0, 8],
                1 => &[0, 16],
                2 => &[8, 24],
                _ => &[0, 8, 16, 24],
            };
            for l in lanes {
                c[i + l] ^= bit;
            }
            d.checksum = StrongHash::from_bytes(c);
            f("checksum-cancelling-flips", format!("byte {i} lanes {lanes:?}"))
        }
        23 => {
            // XOR with a mask of period 4, 8 or 16 bytes
            let mut c = *d.checksum.as_bytes();
            let period = *rng.pick(&[4usize, 8, 16]);
            let mask: Vec<u8> = (0..period).map(|_| rng.byte()).collect();
            if mask.iter().all(|b| *b == 0) {
                return None;
            }
            for (k, b) in c.iter_mut().enumerate() {
                *b ^= mask[k % period];
            }
            d.checksum = StrongHash::from_bytes(c);
            f("checksum-periodic-mask", format!("period {period}"))
        }
        _ => {
            d.ops.clear();
            f("ops-clear", String::new())
        }
    }
}

pub fn judge(po: PatchOut, basis: &[u8], d: &Delta, eng: &str, faults: &[Fault], ctx: &serde_json::Value, rep: &mut Report, profile: &str) -> &'static str {
    let fc = faults.iter().map(|f| f.class).collect::<Vec<_>>().join("+");
    // reads outside the basis (our reader clamps; a read starting beyond the end that returned bytes is impossible,
    // so "outside" = an Ok result that contains bytes not explainable by the ops)
    let outcome: &'static str = match &po.res {
        Caught::Ok(Ok(())) => {
            if blake3::hash(&po.out).as_bytes() != d.checksum.as_bytes() {
                rep.violation(&format!("C05|{eng}|{profile}|ok-but-hash-mismatch"), json!({"ctx": ctx, "faults": fc, "out": brief(&po.out)}));
                "ok-wrong"
            } else {
                // provenance: output must be exactly literals ++ basis ranges
                let mut exp = Vec::with_capacity(po.out.len());
                let mut good = true;
                for op in &d.ops {
                    match op {
                        DeltaOp::Literal(v) => exp.extend_from_slice(v),
                        DeltaOp::Copy { offset, len } => {
                            let (o, l) = (*offset as usize, *len as usize);
                            if l == 0 {
                                continue; // a zero-length copy contributes no bytes, wherever it points
                            }
                            if offset.checked_add(u64::from(*len)).map_or(true, |e| e > basis.len() as u64) {
                                good = false;
                                break;
                            }
                            exp.extend_from_slice(&basis[o..o + l]);
                        }
                    }
                }
                if !good || exp != po.out {
                    rep.violation(&format!("C05|{eng}|{profile}|ok-bytes-from-nowhere"), json!({"ctx": ctx, "faults": fc}));
                }
                "ok-correct"
            }
        }
        Caught::Ok(Err(e)) => err_name(e),
        Caught::Panicked(m) => {
            let site = m.rsplit('@').next().unwrap_or("").trim().to_string();
            rep.violation(&format!("C05|{eng}|{profile}|panic|{}", site.rsplit('/').next().unwrap_or("")), json!({"ctx": ctx, "faults": fc, "panic": m}));
            "panic"
        }
    };
    for (pos, _w, got) in &po.reads {
        if *got > 0 && pos + *got as u64 > basis.len() as u64 {
            rep.violation(&format!("C05|{eng}|read-outside-basis"), json!({"ctx": ctx}));
        }
    }
    rep.count(&format!("outcome[{}]={}", faults.first().map_or("none", |f| f.class), outcome), 1);
    outcome
}

fn lib_one(seed: u64, idx: u64, rep: &mut Report, profile: &str) {
    let mut rng = Rng::derive(seed, 5, idx);
    rep.evaluations += 1;
    let tiny = crate::util::tiny();
    let bs = if tiny { *rng.pick(&[4usize, 8, 16]) } else { *rng.pick(&CLI_BS[..5]) };
    let c = gen_case(&mut rng, bs, if tiny { 128 } else { 40 * 1024 });
    let other = gen_case(&mut rng, bs, if tiny { 128 } else { 40 * 1024 }).basis;
    let Caught::Ok(Ok(sig)) = sig_generate(&c.basis, bs) else { return };
    let Caught::Ok(Ok(d0)) = delta_sync(&c.source, &sig) else { return };
    let had_copy = d0.ops.iter().any(DeltaOp::is_copy);
    let mut basis = c.basis.clone();
    let mut d = d0.clone();
    let nf = rng.range(1, 3);
    let mut faults = Vec::new();
    for _ in 0..nf * 3 {
        if faults.len() >= nf {
            break;
        }
        if let Some(f) = apply_fault(&mut rng, &mut basis, &mut d, &other) {
            faults.push(f);
        }
    }
    if faults.is_empty() {
        return;
    }
    let ctx = json!({"seed": seed, "case": idx, "bs": bs, "basis": brief(&c.basis), "source": brief(&c.source), "faults": faults.iter().map(|f| format!("{}:{}", f.class, f.desc)).collect::<Vec<_>>(), "replay_delta": crate::util::hex(&bincode::serialize(&d).unwrap_or_default()).chars().take(4000).collect::<String>()});
    let o1 = judge(patch_sync(&basis, &d), &basis, &d, "sync", &faults, &ctx, rep, profile);
    let o2 = judge(patch_async(&basis, &d), &basis, &d, "async", &faults, &ctx, rep, profile);
    for f in &faults {
        rep.distinct.insert(format!("{}|{o1}", f.class));
        rep.distinct.insert(format!("{}|{o2}", f.class));
    }
    if had_copy {
        rep.count("pairs_with_copy", 1);
    }
    if o1 == "ok-correct" {
        rep.count("ok_outcomes_observed", 1);
    }
    rep.sample(json!({"faults": ctx["faults"], "sync": o1, "async": o2}), 4);
}

/// For small deltas: every single-field fault, exhaustively (per pair).
fn exhaustive_small(seed: u64, idx: u64, rep: &mut Report, profile: &str) {
    let mut rng = Rng::derive(seed, 55, idx);
    let bs = 512;
    let c = gen_case(&mut rng, bs, 4 * 1024);
    let Caught::Ok(Ok(sig)) = sig_generate(&c.basis, bs) else { return };
    let Caught::Ok(Ok(d0)) = delta_sync(&c.source, &sig) else { return };
    if d0.ops.len() > 6 || d0.ops.is_empty() {
        return;
    }
    rep.count("exhaustive_small_pairs", 1);
    let ctx0 = json!({"seed": seed, "exh_case": idx, "basis": brief(&c.basis), "source": brief(&c.source)});
    let mut variants: Vec<(Delta, Fault)> = Vec::new();
    let fv = |class: &'static str, desc: String| Fault { class, desc };
    for i in 0..d0.ops.len() {
        // drop / dup
        let mut d = d0.clone();
        d.ops.remove(i);
        variants.push((d, fv("op-drop", format!("{i}"))));
        let mut d = d0.clone();
        let o = d.ops[i].clone();
        d.ops.insert(i, o);
        variants.push((d, fv("op-duplicate", format!("{i}"))));
        for j in 0..d0.ops.len() {
            if i < j {
                let mut d = d0.clone();
                d.ops.swap(i, j);
                variants.push((d, fv("op-reorder", format!("{i},{j}"))));
            }
        }
        match &d0.ops[i] {
            DeltaOp::Copy { offset, len } => {
                for no in [0, offset.wrapping_add(1), offset.wrapping_sub(1), offset.wrapping_add(u64::from(d0.block_size)), d0.basis_size, u64::MAX] {
                    let mut d = d0.clone();
                    d.ops[i] = DeltaOp::Copy { offset: no, len: *len };
                    variants.push((d, fv("copy-offset", format!("{i}:{no}"))));
                }
                for nl in [0, len.wrapping_add(1), len.wrapping_sub(1), len / 2, len.wrapping_mul(2)] {
                    let mut d = d0.clone();
                    d.ops[i] = DeltaOp::Copy { offset: *offset, len: nl };
                    variants.push((d, fv("copy-len", format!("{i}:{nl}"))));
                }
            }
            DeltaOp::Literal(v) => {
                for at in [0, v.len() / 2, v.len() - 1] {
                    let mut d = d0.clone();
                    if let DeltaOp::Literal(w) = &mut d.ops[i] {
                        w[at] ^= 0x80;
                    }
                    variants.push((d, fv("literal-bitflip", format!("{i}@{at}"))));
                }
                let mut d = d0.clone();
                if let DeltaOp::Literal(w) = &mut d.ops[i] {
                    w.pop();
                }
                variants.push((d, fv("literal-resize", format!("{i}"))));
            }
        }
    }
    for (name, vals) in [("source_size", vec![0u64, d0.source_size.wrapping_add(1), u64::MAX]), ("basis_size", vec![0, d0.basis_size.wrapping_add(1), d0.basis_size.wrapping_sub(1), u64::MAX])] {
        for v in vals {
            let mut d = d0.clone();
            if name == "source_size" {
                d.source_size = v
            } else {
                d.basis_size = v
            }
            variants.push((d, fv(if name == "source_size" { "source_size" } else { "basis_size" }, v.to_string())));
        }
    }
    for v in [0u32, 1, 3, 1000, u32::MAX] {
        let mut d = d0.clone();
        d.block_size = v;
        variants.push((d, fv("block_size", v.to_string())));
    }
    for byte in 0..32 {
        let mut d = d0.clone();
        let mut c = *d.checksum.as_bytes();
        c[byte] ^= 1;
        d.checksum = StrongHash::from_bytes(c);
        variants.push((d, fv("checksum-bitflip", byte.to_string())));
    }
    for (d, f) in variants {
        rep.evaluations += 1;
        let ctx = json!({"base": ctx0, "fault": format!("{}:{}", f.class, f.desc)});
        let fs = [f];
        let o1 = judge(patch_sync(&c.basis, &d), &c.basis, &d, "sync", &fs, &ctx, rep, profile);
        let o2 = judge(patch_async(&c.basis, &d), &c.basis, &d, "async", &fs, &ctx, rep, profile);
        rep.distinct.insert(format!("{}|{o1}", fs[0].class));
        rep.distinct.insert(format!("{}|{o2}", fs[0].class));
    }
}

fn cli_one(seed: u64, idx: u64, work: &Path, rep: &mut Report) {
    let mut rng = Rng::derive(seed, 56, idx);
    rep.evaluations += 1;
    let bs = *rng.pick(&CLI_BS[..5]);
    let mut c = gen_case(&mut rng, bs, 32 * 1024);
    if idx % 60 == 11 {
        let n = rng.range(2 * 1024 * 1024 + 1, 4 * 1024 * 1024);
        let big = rng.bytes(n);
        c.source.extend_from_slice(&big);
        rep.count("cli_pairs_with_literal_over_2MiB", 1);
    }
    let other = gen_case(&mut rng, bs, 16 * 1024).basis;
    let Caught::Ok(Ok(sig)) = sig_generate(&c.basis, bs) else { return };
    let Caught::Ok(Ok(d0)) = delta_sync(&c.source, &sig) else { return };
    let mut basis = c.basis.clone();
    let mut d = d0;
    let mut faults = Vec::new();
    for _ in 0..6 {
        if let Some(f) = apply_fault(&mut rng, &mut basis, &mut d, &other) {
            // block_size faults are C20's subject (hostile files); here the CLI must see a valid block size
            faults.push(f);
            if faults.len() >= 2 || rng.chance(1, 2) {
                break;
            }
        }
    }
    if faults.is_empty() {
        return;
    }
    let bs_ok = (d.block_size as usize).is_power_of_two() && (512..=65536).contains(&(d.block_size as usize));
    let dir = work.join(format!("f{idx}"));
    let _ = std::fs::remove_dir_all(&dir);
    std::fs::create_dir_all(&dir).unwrap();
    std::fs::write(dir.join("basis"), &basis).unwrap();
    std::fs::write(dir.join("d.delta"), bincode::serialize(&d).unwrap()).unwrap();
    // the output path has a past: a longer stale file, or an earlier patch run (rejected or accepted) that
    // wrote more bytes to the same -o than this one will.  Exit 0 still has to mean "out hashes to checksum".
    let prior = rng.below(6);
    let mut prior_s = "fresh-output";
    if prior == 1 {
        let n = c.source.len() + rng.range(1, 70_000);
        std::fs::write(dir.join("out"), rng.bytes(n)).unwrap();
        prior_s = "stale-longer-output-file";
    } else if prior >= 2 {
        let mut c2 = gen_case(&mut rng, bs, 32 * 1024);
        let n = c.source.len() + rng.range(1, 70_000);
        let extra = rng.bytes(n);
        c2.source.extend_from_slice(&extra);
        if let (Caught::Ok(Ok(sig2)), true) = (sig_generate(&c2.basis, bs), true) {
            if let Caught::Ok(Ok(mut d2)) = delta_sync(&c2.source, &sig2) {
                if prior == 2 || prior == 3 {
                    let mut h = *d2.checksum.as_bytes();
                    h[0] ^= 1;
                    d2.checksum = copia::StrongHash::from_bytes(h);
                    prior_s = "earlier-rejected-longer-patch-to-same-output";
                } else {
                    prior_s = "earlier-accepted-longer-patch-to-same-output";
                }
                std::fs::write(dir.join("basis0"), &c2.basis).unwrap();
                std::fs::write(dir.join("d0.delta"), bincode::serialize(&d2).unwrap()).unwrap();
                if prior == 5 {
                    // ... or an earlier patch of the longer output that was killed half-way
                    let k = rng.range(1, 8) as u64;
                    if crate::c01::run_copia_killed(&["patch", "basis0", "d0.delta", "-o", "out"], &dir, k).is_some() {
                        prior_s = "earlier-killed-longer-patch-to-same-output";
                        rep.count("cli_prior_killed_patch_runs", 1);
                    }
                }
                let r0 = if prior == 5 { crate::c01::Run { code: Some(1), signal: None, stdout: String::new(), stderr: String::new(), timed_out: false, spinning: false } } else { run_copia(&["patch", "basis0", "d0.delta", "-o", "out"], &dir) };
                rep.count("cli_prior_patch_runs", 1);
                if r0.code == Some(0) {
                    let out = std::fs::read(dir.join("out")).unwrap_or_default();
                    if blake3::hash(&out).as_bytes() != d2.checksum.as_bytes() {
                        rep.violation("C05|cli|exit0-but-hash-mismatch|prior-run", json!({"seed": seed, "cli_case": idx, "prior": prior_s}));
                    }
                }
            }
        }
    }
    rep.distinct.insert(format!("cli-output-history|{prior_s}"));
    // half of the judged runs apply the untouched delta to the untouched basis: the only way that can go wrong
    // is through what earlier runs left behind
    let clean = prior != 0 && rng.chance(1, 2);
    if clean {
        let Caught::Ok(Ok(d1)) = delta_sync(&c.source, &sig) else { return };
        d = d1;
        std::fs::write(dir.join("basis"), &c.basis).unwrap();
        std::fs::write(dir.join("d.delta"), bincode::serialize(&d).unwrap()).unwrap();
        faults.clear();
    }
    let r = run_copia(&["patch", "basis", "d.delta", "-o", "out"], &dir);
    let mut fc = faults.iter().map(|f| f.class).collect::<Vec<_>>().join("+");
    if clean {
        fc = "no-fault".into();
        if r.code != Some(0) {
            rep.count("cli_valid_patch_refused_after_history", 1);
        }
    }
    let ctx = json!({"seed": seed, "cli_case": idx, "faults": fc, "bs": d.block_size, "prior": prior_s});
    rep.count("cli_patch_runs", 1);
    if r.spinning {
        rep.violation("C05|cli|hang-spinning-without-progress", json!({"ctx": ctx}));
    } else if r.timed_out {
        rep.inconclusive += 1;
        rep.count("cli_watchdog_expired_without_spin_evidence", 1);
    } else if r.code == Some(97) && crate::c01::valgrind() {
        rep.violation("C05|cli|valgrind-memcheck-error", json!({"ctx": ctx, "stderr": r.stderr.chars().take(600).collect::<String>()}));
    } else if let Some(sig) = r.signal {
        let sigc = if bs_ok { "valid-bs" } else { "invalid-bs" };
        rep.violation(&format!("C05|cli|died-by-signal-{sig}|{sigc}"), json!({"ctx": ctx, "stderr": r.stderr.chars().take(300).collect::<String>()}));
    } else if r.code == Some(0) {
        // an output far larger than anything these cases produce cannot hash to the checksum; do not read it
        let huge = std::fs::metadata(dir.join("out")).map(|m| m.len() > (64 << 20)).unwrap_or(false);
        let out = if huge { Vec::new() } else { std::fs::read(dir.join("out")).unwrap_or_default() };
        if huge || blake3::hash(&out).as_bytes() != d.checksum.as_bytes() {
            rep.violation("C05|cli|exit0-but-hash-mismatch", json!({"ctx": ctx, "output_over_64MiB": huge}));
        }
        rep.count("cli_exit0", 1);
    } else if !r.stderr.contains("Error") {
        rep.violation("C05|cli|nonzero-without-error-line", json!({"ctx": ctx, "stderr": r.stderr.chars().take(300).collect::<String>()}));
    } else {
        rep.count("cli_reported_error", 1);
    }
    rep.distinct.insert(format!("cli|{fc}|{:?}", r.code));
    let _ = std::fs::remove_dir_all(&dir);
}

pub fn run(seed: u64, thorough: bool, cases: Option<u64>, work: &Path, stage: &str, profile: &str) -> Report {
    let mut rep = Report::default();
    if stage == "lib" || stage == "all" {
        let n = cases.unwrap_or(if thorough { 150_000 } else { 4000 });
        rep.merge(par_cases(n, |i, r| lib_one(seed, i, r, profile)));
        if !crate::util::tiny() {
            rep.merge(par_cases(if thorough { 400 } else { 40 }, |i, r| exhaustive_small(seed, i, r, profile)));
        }
    }
    if stage == "cli" || stage == "all" {
        let n = if thorough { 5000 } else { 600 };
        let n = cases.map_or(n, |c| c.min(n));
        rep.merge(par_cases(n, |i, r| cli_one(seed, i, work, r)));
    }
    rep
}
