//! C12 (in-process twin) — wire.rs compiled unchanged; read_frame::<Request> on a hostile corpus
//! under the counting allocator and catch_unwind.
use crate::bin::wire::{read_frame, read_magic, write_frame, Request, MAX_FRAME};
use crate::util::{alloc_scope, brief, guarded, hex, par_cases, Caught, Report, Rng};
use serde_json::json;
use std::io::Cursor;

fn cbor_head(major: u8, val: u64, out: &mut Vec<u8>) {
    let m = major << 5;
    if val < 24 {
        out.push(m | val as u8);
    } else if val <= 0xFF {
        out.push(m | 24);
        out.push(val as u8);
    } else if val <= 0xFFFF {
        out.push(m | 25);
        out.extend_from_slice(&(val as u16).to_be_bytes());
    } else if val <= 0xFFFF_FFFF {
        out.push(m | 26);
        out.extend_from_slice(&(val as u32).to_be_bytes());
    } else {
        out.push(m | 27);
        out.extend_from_slice(&val.to_be_bytes());
    }
}

fn valid_request(rng: &mut Rng) -> Request {
    let path = || -> String { ["f", "a/b", "x y", "日本", "p.conflict-000000000000"][0..].iter().map(|s| s.to_string()).collect::<Vec<_>>()[0].clone() };
    let mut h = [0u8; 32];
    h.copy_from_slice(&rng.bytes(32));
    match rng.below(6) {
        0 => Request::Hello { version: rng.next() as u32 },
        1 => Request::List,
        2 => Request::Get { path: path() },
        3 => Request::Put { path: path(), expected: if rng.chance(1, 2) { Some(h) } else { None }, len: rng.next() >> rng.below(64), hash: h },
        4 => Request::Delete { path: path(), expected: Some(h) },
        _ => Request::Bye,
    }
}

fn frame(body: &[u8], declared: Option<u32>) -> Vec<u8> {
    let mut v = declared.unwrap_or(body.len() as u32).to_be_bytes().to_vec();
    v.extend_from_slice(body);
    v
}

fn one(seed: u64, idx: u64, rep: &mut Report) {
    let mut rng = Rng::derive(seed, 12, idx);
    for _ in 0..(if crate::util::tiny() { 3 } else { 32 }) {
        rep.evaluations += 1;
        let class: &'static str;
        let input: Vec<u8>;
        match rng.below(9) {
            0 => {
                input = rng.bytes_r(0, 64);
                class = "random";
            }
            1 => {
                // length prefixes at and around the bound, with and without a body
                let l = *rng.pick(&[0u32, 1, (1 << 20) - 1, 1 << 20, (1 << 20) + 1, 1 << 24, 1 << 31, u32::MAX]);
                let body = if rng.chance(1, 2) { rng.bytes_r(0, 32) } else { vec![] };
                input = frame(&body, Some(l));
                class = "length-prefix";
            }
            2 => {
                // huge declared CBOR lengths inside a small frame
                let mut b = Vec::new();
                let major = *rng.pick(&[2u8, 3, 4, 5]);
                cbor_head(major, *rng.pick(&[1u64 << 20, 1 << 32, 1 << 40, (1 << 63) - 1, u64::MAX]), &mut b);
                b.extend_from_slice(&rng.bytes_r(0, 16));
                input = frame(&b, None);
                class = "cbor-huge-declared";
            }
            3 => {
                // deep nesting
                let depth = if crate::util::tiny() { *rng.pick(&[10usize, 100]) } else { *rng.pick(&[10usize, 100, 1000, 10_000, 100_000, 500_000]) };
                let mut b = Vec::with_capacity(depth + 8);
                let major = *rng.pick(&[4u8, 5, 6]);
                for _ in 0..depth {
                    match major {
                        4 => b.push(0x81),
                        5 => {
                            b.push(0xA1);
                            b.push(0x00);
                        }
                        _ => b.push(0xC1),
                    }
                }
                b.push(0x00);
                b.truncate((1 << 20) - 1);
                input = frame(&b, None);
                class = "cbor-deep-nesting";
            }
            4 => {
                // indefinite-length items, wrong types, unknown variants
                let choices: [&[u8]; 8] = [&[0x9F, 0x01, 0xFF], &[0xBF, 0x61, 0x61, 0x01, 0xFF], &[0x7F, 0x61, 0x61, 0xFF], &[0x5F, 0x41, 0x00, 0xFF], &[0x64, b'N', b'o', b'p', b'e'], &[0xA1, 0x63, b'G', b'e', b't', 0x01], &[0xF6], &[0xFB, 0, 0, 0, 0, 0, 0, 0, 0]];
                input = frame(choices[rng.below(8) as usize], None);
                class = "cbor-odd-items";
            }
            5 => {
                // 1 MiB-ish path strings
                let n = if crate::util::tiny() { 300 } else { *rng.pick(&[1000usize, 65_536, (1 << 20) - 64]) };
                let mut b = Vec::new();
                b.push(0xA1);
                b.extend_from_slice(&[0x63, b'G', b'e', b't', 0xA1, 0x64, b'p', b'a', b't', b'h']);
                cbor_head(3, n as u64, &mut b);
                b.extend(std::iter::repeat(b'a').take(n));
                input = frame(&b, None);
                class = "long-path";
            }
            _ => {
                // valid frame, then mutate
                let mut w = Vec::new();
                let req = valid_request(&mut rng);
                let _ = write_frame(&mut w, &req);
                match rng.below(5) {
                    0 => {
                        class = "valid";
                    }
                    1 => {
                        let k = rng.range(0, w.len());
                        w.truncate(k);
                        class = "valid-truncated";
                    }
                    2 => {
                        let at = rng.range(0, w.len() - 1);
                        w[at] = rng.byte();
                        class = "valid-byte-mutated";
                    }
                    3 => {
                        let at = rng.range(4, w.len());
                        let extra = rng.bytes_r(1, 8);
                        w.splice(at..at, extra);
                        class = "valid-insert-no-len-fix";
                    }
                    _ => {
                        let at = rng.range(4, w.len());
                        let extra = rng.bytes_r(1, 8);
                        w.splice(at..at, extra);
                        let l = (w.len() - 4) as u32;
                        w[..4].copy_from_slice(&l.to_be_bytes());
                        class = "valid-insert-len-fixed";
                    }
                }
                input = w;
            }
        }
        let declared = if input.len() >= 4 { Some(u32::from_be_bytes([input[0], input[1], input[2], input[3]])) } else { None };
        let inp = input.clone();
        let (r, st) = alloc_scope(|| guarded(move || read_frame::<_, Request>(&mut Cursor::new(&inp))));
        rep.max("max_single_alloc_in_read_frame", st.max_request as u64);
        let out = match &r {
            Caught::Ok(Ok(Some(_))) => "request",
            Caught::Ok(Ok(None)) => "eof",
            Caught::Ok(Err(_)) => "error",
            Caught::Panicked(p) => {
                rep.violation("C12|read_frame|panic", json!({"class": class, "input": brief(&input), "input_hex": hex(&input[..input.len().min(128)]), "panic": p}));
                "panic"
            }
        };
        if let Some(l) = declared {
            if l > MAX_FRAME {
                if st.max_request >= l as usize {
                    rep.violation("C12|read_frame|allocation>=oversize-prefix", json!({"class": class, "prefix": l, "max_request": st.max_request}));
                }
                if out == "request" {
                    rep.violation("C12|read_frame|oversize-frame-accepted", json!({"class": class, "prefix": l}));
                }
                rep.count("oversize_prefixes", 1);
            }
        }
        if input.len() >= 10 {
            rep.distinct.insert(format!("{class}|{out}"));
        }
        rep.count(&format!("read_frame[{class}]={out}"), 1);
    }
    // magic
    for m in [&b"COPIA1"[..], b"COPIA2", b"copia1", b"COPIA", b"", b"SSH-2.0-x\nCOPIA1"] {
        rep.evaluations += 1;
        let r = guarded(|| read_magic(&mut Cursor::new(m)));
        match r {
            Caught::Ok(Ok(true)) if m == b"COPIA1" => {}
            Caught::Ok(Ok(true)) => rep.violation("C12|read_magic|accepted-wrong-magic", json!({"magic": hex(m)})),
            Caught::Ok(Ok(false)) if m == b"COPIA1" => rep.violation("C12|read_magic|rejected-right-magic", json!({})),
            Caught::Ok(_) => {}
            Caught::Panicked(p) => rep.violation("C12|read_magic|panic", json!({"panic": p})),
        }
    }
}

/// Seed corpus for the coverage-guided stage: valid request frames, alone and in sequences.
pub fn dump_seeds(dir: &std::path::Path, seed: u64) {
    let _ = std::fs::create_dir_all(dir);
    let mut rng = Rng::derive(seed, 1212, 0);
    for i in 0..32 {
        let mut w = Vec::new();
        for _ in 0..rng.range(1, 4) {
            let _ = write_frame(&mut w, &valid_request(&mut rng));
        }
        let _ = std::fs::write(dir.join(format!("frames{i}")), &w);
    }
}

/// Replay of libFuzzer artifacts / corpus files of the `frame` target through the ordinary oracle.
pub fn replay_files(dir: &std::path::Path) -> Report {
    let mut rep = Report::default();
    let Ok(rd) = std::fs::read_dir(dir) else { return rep };
    for e in rd.flatten() {
        let Ok(input) = std::fs::read(e.path()) else { continue };
        rep.evaluations += 1;
        let name = e.file_name().to_string_lossy().into_owned();
        let inp = input.clone();
        let (r, st) = alloc_scope(|| {
            guarded(move || {
                let mut c = Cursor::new(&inp);
                let mut n = 0;
                while let Ok(Some(_)) = read_frame::<_, Request>(&mut c) {
                    n += 1;
                }
                n
            })
        });
        rep.max("max_single_alloc_in_read_frame", st.max_request as u64);
        match r {
            Caught::Ok(n) => rep.count("replayed_frames_decoded", n as u64),
            Caught::Panicked(p) => rep.violation("C12|read_frame|panic", json!({"file": name, "input_hex": hex(&input[..input.len().min(128)]), "panic": p})),
        }
        // every length prefix on the way is <= MAX_FRAME or the call errs; an allocation above the bound + slack is a violation
        if st.max_request > (MAX_FRAME as usize) * 3 {
            rep.violation("C12|read_frame|allocation-far-above-frame-bound", json!({"file": name, "max_request": st.max_request}));
        }
        rep.distinct.insert(format!("replay|{}", if name.starts_with("crash") { "crash" } else if name.starts_with("oom") { "oom" } else { "corpus" }));
    }
    rep
}

pub fn run(seed: u64, thorough: bool, cases: Option<u64>) -> Report {
    let n = cases.unwrap_or(if thorough { 300_000 } else { 10_000 });
    par_cases(n, |i, r| one(seed, i, r))
}
