//! C16 — the delta carries no more literal bytes than textbook greedy rsync.
use crate::engines::*;
use crate::gen::{gen_block, gen_case, BlockKind, CLI_BS, KINDS};
use crate::refs::greedy_literals;
use crate::util::{brief, par_cases, Caught, Report, Rng};
use serde_json::json;

fn lit_of(basis: &[u8], source: &[u8], bs: usize, ctx: &serde_json::Value, rep: &mut Report) -> Vec<(&'static str, u64)> {
    let mut out = Vec::new();
    let sig = match sig_generate(basis, bs) {
        Caught::Ok(Ok(s)) => s,
        Caught::Ok(Err(e)) => {
            rep.violation("C16|signature-error", json!({"ctx": ctx, "err": e.to_string()}));
            return out;
        }
        Caught::Panicked(m) => {
            rep.violation("C16|signature-panic", json!({"ctx": ctx, "panic": m}));
            return out;
        }
    };
    for (eng, r) in [("sync", delta_sync(source, &sig)), ("async", delta_async(source, &sig))] {
        match r {
            Caught::Ok(Ok(d)) => out.push((eng, d.bytes_literal())),
            Caught::Ok(Err(e)) => rep.violation(&format!("C16|{eng}|delta-error"), json!({"ctx": ctx, "err": e.to_string()})),
            Caught::Panicked(m) => rep.violation(&format!("C16|{eng}|delta-panic"), json!({"ctx": ctx, "panic": m})),
        }
    }
    out
}

fn sum_class(b: &[u8]) -> &'static str {
    if b.is_empty() {
        return "empty";
    }
    let avg = b.iter().map(|&x| x as u64).sum::<u64>() / b.len() as u64;
    if avg >= 200 {
        "high"
    } else if avg >= 64 {
        "mid"
    } else {
        "low"
    }
}

fn general(seed: u64, idx: u64, rep: &mut Report) {
    let mut rng = Rng::derive(seed, 16, idx);
    rep.evaluations += 1;
    let tiny = crate::util::tiny();
    let bs = if tiny { *rng.pick(&[4usize, 8, 16]) } else { *rng.pick(&CLI_BS) };
    let max_total = if tiny { 128 } else if bs >= 16384 { 8 * bs } else { 96 * 1024 };
    let c = gen_case(&mut rng, bs, max_total);
    let ctx = json!({"seed": seed, "case": idx, "family": "general", "bs": bs, "basis": brief(&c.basis), "source": brief(&c.source), "edit": c.meta.edit_shape});
    let (rl, matches, max_slides) = greedy_literals(&c.basis, &c.source, bs);
    let lits = lit_of(&c.basis, &c.source, bs, &ctx, rep);
    rep.count(&format!("bs{bs}_cases"), 1);
    rep.count(&format!("bs{bs}_lit_ref"), rl);
    for (eng, l) in &lits {
        if *eng == "sync" {
            rep.count(&format!("bs{bs}_lit_copia"), *l);
        }
        if *l > rl {
            rep.violation(&format!("C16|{eng}|more-literals-than-greedy|{}", sum_class(&c.basis)), json!({"ctx": ctx, "copia_literal": l, "reference_literal": rl, "ref_matches": matches}));
        } else if *l < rl {
            rep.count("copia_beats_reference", 1);
        }
    }
    if matches > 0 {
        let slc = match max_slides {
            0 => "0",
            1..=4998 => "<4999",
            4999..=5001 => "~5000",
            _ => ">5001",
        };
        rep.distinct.insert(format!("bs{bs}|{}|{slc}|{}", sum_class(&c.basis), c.meta.edit_shape.chars().take(2).collect::<String>()));
        if max_slides >= 5000 {
            rep.count("matches_after_ge_5000_slides", 1);
        }
        if sum_class(&c.basis) == "high" {
            rep.count("high_sum_cases_with_ref_match", 1);
        }
    }
    rep.sample(ctx, 2);
}

/// identical files => literal < one block
fn identical(seed: u64, idx: u64, rep: &mut Report) {
    let mut rng = Rng::derive(seed, 161, idx);
    rep.evaluations += 1;
    let bs = *rng.pick(&CLI_BS);
    let kind = *rng.pick(&KINDS);
    let nb = rng.range(0, 6);
    let tail = if rng.chance(1, 2) { rng.range(0, bs - 1) } else { 0 };
    let mut data = Vec::new();
    for _ in 0..nb {
        data.extend_from_slice(&gen_block(&mut rng, bs, kind));
    }
    data.extend_from_slice(&gen_block(&mut rng, tail, kind));
    let ctx = json!({"seed": seed, "case": idx, "family": "identical", "bs": bs, "kind": format!("{kind:?}"), "data": brief(&data)});
    for (eng, l) in lit_of(&data, &data, bs, &ctx, rep) {
        if l >= bs as u64 {
            rep.violation(&format!("C16|{eng}|identical-files-literal>=block|{}", sum_class(&data)), json!({"ctx": ctx, "literal": l}));
        }
    }
    if nb > 0 {
        rep.distinct.insert(format!("ident|bs{bs}|{kind:?}|{}", if tail > 0 { "tail" } else { "notail" }));
    }
    rep.count("identical_cases", 1);
}

/// tail-free basis of pairwise-distinct blocks, one edit of k <= bs bytes => lit <= k + 2*bs
fn single_edit(seed: u64, idx: u64, rep: &mut Report) {
    let mut rng = Rng::derive(seed, 162, idx);
    rep.evaluations += 1;
    let bs = *rng.pick(&CLI_BS);
    let nb = rng.range(2, if bs >= 16384 { 5 } else { 10 });
    let kind = *rng.pick(&[BlockKind::Random, BlockKind::HighNoise, BlockKind::TwoSym, BlockKind::Text]);
    let mut blocks: Vec<Vec<u8>> = Vec::new();
    while blocks.len() < nb {
        let mut b = gen_block(&mut rng, bs, kind);
        // make pairwise distinct with a counter stamp
        let id = (blocks.len() as u32).to_le_bytes();
        b[..4].copy_from_slice(&id);
        if kind == BlockKind::HighNoise {
            for x in &mut b[..4] {
                *x |= 0xF0;
            }
            b[4] = 0xF0 | blocks.len() as u8 & 0x0F;
        }
        if !blocks.contains(&b) {
            blocks.push(b);
        }
    }
    let basis: Vec<u8> = blocks.concat();
    let k = match rng.below(4) {
        0 => 1,
        1 => rng.range(1, 16),
        2 => bs,
        _ => rng.range(1, bs),
    };
    let op = rng.below(3);
    let at = match rng.below(4) {
        0 => rng.range(0, nb - 1) * bs,                        // block aligned
        1 => (rng.range(1, nb - 1) * bs).saturating_sub(1),    // just before a boundary
        _ => rng.range(0, basis.len() - 1),
    };
    let mut source = basis.clone();
    let kk;
    match op {
        0 => {
            let ins = rng.bytes(k);
            source.splice(at..at, ins);
            kk = k;
        }
        1 => {
            let k2 = k.min(source.len() - at);
            source.drain(at..at + k2);
            kk = k2;
        }
        _ => {
            let k2 = k.min(source.len() - at);
            for b in &mut source[at..at + k2] {
                *b = b.wrapping_add(1 + (rng.byte() % 200));
            }
            kk = k2;
        }
    }
    let ctx = json!({"seed": seed, "case": idx, "family": "single-edit", "bs": bs, "blocks": nb, "kind": format!("{kind:?}"), "op": (["insert", "delete", "replace"][op as usize]), "k": kk, "at": at});
    let bound = kk as u64 + 2 * bs as u64;
    for (eng, l) in lit_of(&basis, &source, bs, &ctx, rep) {
        if l > bound {
            rep.violation(&format!("C16|{eng}|single-edit-literal>k+2bs|{}", sum_class(&basis)), json!({"ctx": ctx, "literal": l, "bound": bound}));
        }
    }
    rep.distinct.insert(format!("edit|bs{bs}|{kind:?}|op{op}|{}", if at % bs == 0 { "aligned" } else { "unaligned" }));
    rep.count("single_edit_cases", 1);
}

/// The source begins with the complete basis and goes on with material that reuses basis blocks (`cat f f`,
/// basis + noise + some old blocks): everything after the first copy of the basis still has to be matched.
fn basis_then_reuse(seed: u64, idx: u64, rep: &mut Report) {
    let mut rng = Rng::derive(seed, 163, idx);
    rep.evaluations += 1;
    let bs = *rng.pick(&CLI_BS);
    let nb = rng.range(1, if bs >= 16384 { 4 } else { 9 });
    let mut basis = rng.bytes(nb * bs);
    for i in 0..nb {
        basis[i * bs..i * bs + 4].copy_from_slice(&(0xB000_0000u32 + i as u32).to_le_bytes());
    }
    if rng.chance(1, 4) {
        let t = rng.range(1, bs - 1);
        basis.extend_from_slice(&rng.bytes(t)); // ragged tail: the basis is not a whole number of blocks
    }
    let mut source = basis.clone();
    let mut want_literal = 0u64;
    for _ in 0..rng.range(1, 4) {
        match rng.below(3) {
            0 => source.extend_from_slice(&basis[..nb * bs]),
            1 => {
                let n = rng.range(1, 300);
                source.extend_from_slice(&rng.bytes(n));
                want_literal += n as u64;
            }
            _ => {
                let k = rng.range(0, nb - 1);
                source.extend_from_slice(&basis[k * bs..(k + 1) * bs]);
            }
        }
    }
    let ctx = json!({"seed": seed, "case": idx, "family": "basis-then-reuse", "bs": bs, "blocks": nb, "basis_len": basis.len(), "source_len": source.len()});
    // textbook greedy on this input: the ragged tail (if any) and the noise runs are literal, whole basis blocks are copies;
    // noise can shift alignment but every appended block is still found by sliding
    let _ = want_literal;
    let bound = greedy_literals(&basis, &source, bs).0;
    for (eng, l) in lit_of(&basis, &source, bs, &ctx, rep) {
        if l > bound {
            rep.violation(&format!("C16|{eng}|more-literals-than-greedy|basis-then-reuse"), json!({"ctx": ctx, "literal": l, "bound": bound}));
        }
    }
    rep.distinct.insert(format!("basis-then-reuse|bs{bs}|nb{}", nb.min(4)));
    rep.count("basis_then_reuse_cases", 1);
}

/// The single-edit bound on LARGE files (4-9 MiB of distinct blocks, a few bytes inserted, deleted or replaced near
/// the front or somewhere inside): an engine that splits the work into segments must not lose a block per segment.
fn single_edit_large(seed: u64, idx: u64, rep: &mut Report) {
    let mut rng = Rng::derive(seed, 1620, idx);
    rep.evaluations += 1;
    let bs = *rng.pick(&[512usize, 2048, 4096, 65536]);
    let total = rng.range(4 * 1024 * 1024 + 1, 9 * 1024 * 1024);
    let nb = total / bs;
    let mut basis = rng.bytes(nb * bs);
    for i in 0..nb {
        basis[i * bs..i * bs + 4].copy_from_slice(&(i as u32).to_le_bytes());
    }
    let k = *rng.pick(&[1usize, 1, 7, 137, 700, 4099]);
    let at = match rng.below(3) {
        0 => 0,
        1 => rng.range(1, bs - 1),
        _ => rng.range(0, basis.len() - k - 1),
    };
    let op = rng.below(3);
    let mut source = basis.clone();
    match op {
        0 => {
            let ins = rng.bytes(k);
            source.splice(at..at, ins);
        }
        1 => {
            source.drain(at..at + k);
        }
        _ => {
            for b in &mut source[at..at + k] {
                *b = b.wrapping_add(1 + (rng.byte() % 200));
            }
        }
    }
    let ctx = json!({"seed": seed, "case": idx, "family": "single-edit-large", "bs": bs, "bytes": basis.len(), "op": (["insert", "delete", "replace"][op as usize]), "k": k, "at": at});
    let bound = k as u64 + 2 * bs as u64;
    for (eng, l) in lit_of(&basis, &source, bs, &ctx, rep) {
        if l > bound {
            rep.violation(&format!("C16|{eng}|single-edit-literal>k+2bs|large-file"), json!({"ctx": ctx, "literal": l, "bound": bound}));
        }
    }
    rep.distinct.insert(format!("edit-large|bs{bs}|op{op}"));
    rep.count("single_edit_cases_over_4MiB", 1);
}

/// The single-edit bound when k is LARGE: 24-40 MiB of fresh data inserted into a small file of distinct blocks. The
/// scan slides tens of millions of windows without a match before the basis's blocks come back; whatever state it
/// carries along (sums that are reduced only now and then, counters, hints) must still find them.
fn big_insert(seed: u64, idx: u64, rep: &mut Report) {
    let mut rng = Rng::derive(seed, 1621, idx);
    rep.evaluations += 1;
    let bs = *rng.pick(&[512usize, 1024, 4096, 65536]);
    let nb = (256 * 1024 / bs).max(4);
    let mut basis = rng.bytes(nb * bs);
    for i in 0..nb {
        basis[i * bs..i * bs + 4].copy_from_slice(&(i as u32).to_le_bytes());
    }
    let k = rng.range(24 * 1024 * 1024, 40 * 1024 * 1024);
    let at = match rng.below(3) {
        0 => 0,
        1 => bs * rng.range(1, nb - 1),
        _ => rng.range(1, basis.len() - 1),
    };
    // high bytes make every running sum grow as fast as it can
    let ins: Vec<u8> = if rng.below(2) == 0 { rng.bytes(k) } else { rng.bytes(k).into_iter().map(|b| b | 0xC0).collect() };
    let mut source = Vec::with_capacity(basis.len() + k);
    source.extend_from_slice(&basis[..at]);
    source.extend_from_slice(&ins);
    source.extend_from_slice(&basis[at..]);
    let ctx = json!({"seed": seed, "case": idx, "family": "big-insert", "bs": bs, "basis_bytes": basis.len(), "k": k, "at": at});
    let bound = k as u64 + 2 * bs as u64;
    for (eng, l) in lit_of(&basis, &source, bs, &ctx, rep) {
        if l > bound {
            rep.violation(&format!("C16|{eng}|single-edit-literal>k+2bs|insert-of-tens-of-MiB"), json!({"ctx": ctx, "literal": l, "bound": bound}));
        }
    }
    rep.distinct.insert(format!("big-insert|bs{bs}"));
    rep.count("single_edit_cases_with_k_over_24MiB", 1);
}

/// The file-based entry point (`AsyncCopiaSync::sync_files`, what `copia sync SRC DST` runs) reports how many literal
/// bytes it used; the bound is the same. Sizes sit on the edges of the block arithmetic: a side of exactly one block,
/// one byte less or more, an exact multiple, a last partial block, a side shorter than one block.
fn sync_files_edges(seed: u64, idx: u64, work: &std::path::Path, rep: &mut Report) {
    let mut rng = Rng::derive(seed, 1622, idx);
    rep.evaluations += 1;
    let bs = *rng.pick(&[512usize, 1024, 2048, 4096, 65536]);
    let edge = |rng: &mut Rng| -> usize {
        let k = rng.range(1, 4);
        match rng.below(8) {
            0 => bs,
            1 => bs - 1,
            2 => bs + 1,
            3 => k * bs,
            4 => k * bs + rng.range(1, bs - 1),
            5 => rng.range(1, bs - 1),
            6 => k * bs - 1,
            _ => bs + 100,
        }
    };
    let nb = edge(&mut rng);
    let mut basis = rng.bytes(nb);
    for (i, ch) in basis.chunks_mut(bs).enumerate() {
        if ch.len() >= 4 {
            ch[..4].copy_from_slice(&(i as u32 + 1).to_le_bytes());
        }
    }
    // the source reuses the basis: a prefix of it, the whole of it plus a tail, a head plus the whole of it, one block of it
    let shape = rng.below(5);
    let extra_len = match rng.below(3) { 0 => 1, 1 => 100, _ => rng.range(1, bs) };
    let extra = rng.bytes(extra_len);
    let source: Vec<u8> = match shape {
        0 => { let cut = edge(&mut rng); basis[..basis.len().min(cut)].to_vec() }
        1 => [basis.clone(), extra.clone()].concat(),
        2 => [extra.clone(), basis.clone()].concat(),
        3 => {
            let full = basis.len() / bs;
            if full == 0 { [basis.clone(), extra.clone()].concat() } else { let b = rng.below(full as u64) as usize; [extra.clone(), basis[b * bs..(b + 1) * bs].to_vec()].concat() }
        }
        _ => [basis.clone(), basis.clone()].concat(),
    };
    if source == basis || source.is_empty() {
        return;
    }
    let (rl, matches, _) = greedy_literals(&basis, &source, bs);
    let dir = work.join(format!("c16sf-{}-{idx}", std::process::id()));
    let _ = std::fs::create_dir_all(&dir);
    let (sp, dp) = (dir.join("src"), dir.join("dst"));
    let ctx = json!({"seed": seed, "case": idx, "family": "sync_files-edges", "bs": bs, "basis_bytes": basis.len(), "source_bytes": source.len(), "shape": shape});
    if std::fs::write(&sp, &source).is_ok() && std::fs::write(&dp, &basis).is_ok() {
        let r = crate::util::guarded(|| block_on(copia::async_sync::AsyncCopiaSync::with_block_size(bs).sync_files(&sp, &dp)));
        match r {
            Caught::Ok(Ok(res)) => {
                if res.bytes_literal > rl {
                    rep.violation("C16|sync_files|more-literals-than-greedy|block-edge-sizes", json!({"ctx": ctx, "copia_literal": res.bytes_literal, "reference_literal": rl, "ref_matches": matches}));
                }
                if std::fs::read(&dp).map(|d| d != source).unwrap_or(true) {
                    rep.violation("C16|sync_files|destination-differs-from-source", json!({"ctx": ctx}));
                }
            }
            Caught::Ok(Err(e)) => rep.violation("C16|sync_files|error", json!({"ctx": ctx, "err": e.to_string()})),
            Caught::Panicked(m) => rep.violation("C16|sync_files|panic", json!({"ctx": ctx, "panic": m})),
        }
    }
    let _ = std::fs::remove_dir_all(&dir);
    if matches > 0 {
        rep.distinct.insert(format!("sync_files|bs{bs}|shape{shape}"));
    }
    rep.count("sync_files_cases_on_block_edges", 1);
}

pub fn run(seed: u64, thorough: bool, cases: Option<u64>, work: &std::path::Path) -> Report {
    let n = cases.unwrap_or(if thorough { 30_000 } else { 1200 });
    let mut rep = par_cases(n, |i, r| general(seed, i, r));
    if !crate::util::tiny() {
        rep.merge(par_cases(n / 4, |i, r| identical(seed, i, r)));
        rep.merge(par_cases(n / 3, |i, r| single_edit(seed, i, r)));
        rep.merge(par_cases(if thorough { 60 } else { 6 }, |i, r| single_edit_large(seed, i, r)));
        rep.merge(par_cases(n / 3, |i, r| basis_then_reuse(seed, i, r)));
        rep.merge(par_cases(if thorough { 16 } else { 3 }, |i, r| big_insert(seed, i, r)));
        rep.merge(par_cases(if thorough { 20_000 } else { 1500 }, |i, r| sync_files_edges(seed, i, work, r)));
    }
    rep
}
